#!/usr/bin/env python3
"""Writes MANIFEST.json from the table below (kept in one place so that it always validates)."""
import json, os
VERIF = os.path.dirname(os.path.dirname(os.path.abspath(__file__)))
LEVEL_NOTE = ("Trusted: Coq 8.16.1 kernel; the leaf translator (clang JSON AST -> Gallina) for regenerated leaves; ExtrOcamlBasic extraction + "
              "hand-written OCaml drivers; the C++ lock-step harness and generator. The hand-written model is tied to /repo by running the "
              "extracted model and the rebuilt library on the same scripts and comparing the full observable state after every step.")
CHECKS = {
 "C08": ("proof", "Theorems over the regenerated Handles.hh leaves (every index < 2^30) and over every state of the kernel model: opposite halfedge "
         "swaps endpoints, opposite halfface is the reversed list of opposites, opp is an involution, the topology check is exactly closedness and "
         "the mirrored side of a closed face is closed. Tie: leaves regenerated from the source each run + lock step of the kernel model.",
         "Coq proof over regenerated leaves + kernel model; lock-step correspondence; brute-force mirror oracle", "6 C08"),
}
CHECKS.update({
 "C11": ("proof", "Theorems about the kernel model for every state: a rejected or deduplicated call returns the same state (all components); the face check accepts exactly "
         "closed loops; the cell check (sort/adjacent_find/unique-by-edge) accepts exactly non-empty lists in which every halfedge occurs once and its opposite once; add_edge "
         "returns an existing live edge between the vertices iff one exists (cache path under exactness of that cache); accepted calls append exactly one entity. Tie: lock step incl. malformed stream.",
         "Coq proof over the kernel model; lock-step correspondence; brute-force construction oracle", "6 C11"),
 "C03": ("proof", "Theorem for EVERY history: every flag array and every property array has one element per entity slot (induction over arbitrary operation lists; found the clear() defect, fixed). "
         "Per-slot laws of resize/delete/swap notifications incl. half-entity sides; swaps move values with definitions and flags in every mode; growth appends defaults. "
         "Tie: lock step on every property array with 6 value types; token oracle.",
         "Coq invariant by induction over histories + slot laws; lock-step correspondence; token oracle", "6 C03"),
 "C17": ("proof", "Theorems: self swap is the identity; in every mode the two slots of definitions/flags/properties (half-entities pairwise) are exchanged and nothing of another kind changes; "
         "for the linear-scan implementation the result is exactly the relabeled state and swapping twice restores the exact state in every reachable state. The relabeling of stored "
         "definitions of deferred-deleted entities is refuted with a witness (known finding D13). Tie: lock step on swap-heavy histories; relabeling oracle.",
         "Coq proof (relabeling, involution) + refutation witness; lock-step correspondence; relabeling oracle", "6 C17"),
})
CHECKS.update({
 "C02": ("proof", "Theorems: the closure a deletion gathers through the incidence caches equals the brute-force closure over the stored definitions of not-deleted entities whenever the caches "
         "are exact (and is that scan literally when a kind is off); in deferred mode delete_vertex/edge/face/cell flag exactly the entity and its closure, leave all definitions, other flags, "
         "property values and modes untouched and advance the counters by the number of newly flagged entities; counters stay exact. Immediate index-shifting mode: survivors = everything outside the "
         "closure, definitions read through the shift maps. Immediate fast mode: core = swap-with-last then removal, survivors renumbered by a bijection that definitions, flags and property values follow; "
         "mode independence (fast / shifting / deferred: same survivors, isomorphic results, equal counts); the invariant holds along every immediate-mode history. All modes also tied by lock step "
         "and the identity-token closure oracle.",
         "Coq proof (closure = brute force; deferred, shifting and fast deletion exact; mode independence; history invariant) + lock-step correspondence in all modes + closure oracle", "6 C02"),
 "C05": ("proof", "Theorems about the cursor machines of every iterator/circulator class for arbitrary lists, max_laps and step counts (forward trace = list x laps, end = advanced begin, prev/next inverse "
         "inside the valid range, empty centre invalid, entity iterators = live entities ascending once), builder lists = incident sets under cache exactness, and that exactness (with every other state hypothesis) PROVED for every reachable state of C01's history class (Properties_C05_C10_history.v). Refuted with witness: valid() after stepping "
         "back from end (known finding D11). Tie: lock step of every accessor on generated states; brute-force oracles.",
         "Coq proof of cursor machines and builder lists; lock-step correspondence on all accessors; brute-force incident-set oracle", "6 C05"),
 "C09": ("proof", "Theorems: inside a closed cell adjacent_halfface_in_cell returns the unique other halfface at the edge and is an involution; reorder_incident_halffaces on a single fan yields the rotational "
         "order with the mirrored list on the opposite halfedge, is a permutation and idempotent; HISTORY level: in every state of every history of additions, deletions in all four modes, collections, swaps "
         "and incidence toggles every live single-fan edge is in rotational order and every live cell is closed with adjacent_halfface_in_cell an involution (Properties_C09_history.v). Tied by lock step on "
         "ordered cache dumps and the fan oracle.",
         "Coq proof (adjacency involution, reorder postcondition, rotational order along all histories) + lock-step correspondence incl. cache order + fan oracle", "6 C09"),
 "C10": ("proof", "Soundness and completeness theorems for every lookup against the brute-force relation over stored definitions under cache exactness and the documented preconditions - hypotheses PROVED to hold in every reachable state of C01's history class, each theorem restated over histories (Properties_C05_C10_history.v); completeness of the "
         "vertex forms is refuted with parallel edges (known finding) and proved without them. Tie: exhaustive query batches in lock step; brute-force relation oracle.",
         "Coq proof (sound/complete per lookup) + refutation witness; lock-step correspondence on exhaustive query batches; brute-force oracle", "6 C10"),
 "C19": ("proof", "Theorems for every dimension: each VectorT operator (as the algorithm of the header) equals its component-wise definition; integer algebra over Z (order, dot, cross incl. Lagrange identity, lattice laws); "
         "unsigned = mod 2^32; geometry queries = defining sums; opposite normals for triangles and planar convex faces. Refuted with witnesses: l1_norm (known finding D12), opposite normals on planar non-convex faces. "
         "Floating point: the same algorithms instantiated with Flocq binary64/binary32 in the C++ evaluation order agree with the library BIT FOR BIT on every generated input (special values included); proved on that model: "
         "component-wise operations correctly rounded, exact comparisons/min/max, forward error bounds for dot, sqrnorm, norm, normalized, barycenters, exactness on integer-valued doubles (these 20 theorems depend on the standard "
         "library's real-number axioms, named in the evidence).",
         "Coq proof over Z/Q and Flocq models of the header algorithms; differential run incl. bit-exact float comparison and exact-rational error bounds; defining-formula oracle", "6 C19"),
 "C20": ("proof", "PARTIAL: proved - every interleaving of read-only steps yields per thread the sequential outputs and leaves the state unchanged; the table of const members regenerated from the clang AST on every run has no "
         "own writes, mutable members (except the registry's tracker map, as the property excludes), const_casts or local statics. Observed only (ThreadSanitizer, 2..16 threads): absence of data races in the binary.",
         "Coq proof (schedule theorem + regenerated const-write table decided by computation); TSan stress run", "6 C20"),
})
CHECKS.update({
 "C01": ("proof", "Theorems: caches computed from scratch are the exact, duplicate-free inverse of the stored definitions of not-deleted entities (every state); the invariant's decision procedures are sound "
         "and are evaluated on every explored model state, which is compared cache for cache (with order) with the library; under the invariant the closure queries and every circulator list / valence / "
         "is_boundary equal the brute-force sets (Properties_C01_queries.v). The invariant is proved for EVERY state reached by a history of additions, checked add_cell, deletions in all four modes, "
         "collect_garbage, mode switches, incidence toggles incl. re-enabling, swaps, clear and property operations (Properties_C01_all.v: C01_invariant_along_all_histories); outside that class (set_*, "
         "unchecked add_cell of non-closed cells - refuted there, non-simple faces) the sound checkers run on every explored state.",
         "Coq proof (invariant along all histories, recompute exact, queries = brute force under the invariant) + lock step of caches and all accessors + brute-force oracles", "6 C01"),
 "C04": ("proof", "Theorems: after collect_garbage / leaving deferred mode no deletion is pending, modes restored, every array one element per slot, identity without pending deletions; under an invariant "
         "proved for every deferred history, collect_garbage yields exactly the logical mesh (definitions renamed by rank, every property array = the live slots; fast mode: a bijection that definitions "
         "and values follow); equality with immediate deletion (single deletion from any invariant state, deletion on top of pending ones, lists of deletions); StatusAttrib::garbage_collection: tracked "
         "handles map to their image or invalid, the manifoldness pass flags exactly the unbounded faces/edges/vertices. Tied by lock step and the identity-token oracle.",
         "Coq proof (collection = logical mesh = immediate deletion; tracking; manifoldness) + lock-step correspondence + logical-mesh oracle", "6 C04"),
 "C12": ("proof", "Theorems: toggling a kind changes only its cache and flag; re-enabling yields exactly the incidences (vertex, face kinds in full; edge kind before re-ordering); the deleted closure and the "
         "slot exchange of swaps are independent of the enabled subset; along whole histories the toggled history and the same history with every toggle removed end in the same core with the same call results for the decidable class indep_ops (Properties_C12_history.v), refuted in general with witnesses replayed on the library (known finding parallel-edge-choice; D13 family). 'No out-of-range access with a kind disabled' is decided by sanitizers on the lock-step runs in all 32 mode cells and the twin-mesh oracle.",
         "Coq proof (re-enable exact, closure independent of caches) + lock step in all incidence subsets x deletion modes under sanitizers + twin-mesh oracle", "6 C12"),
})
CHECKS.update({
 "C13": ("proof", "Theorems about a heap model (storages, meshes, handles; aliasing expressible) for every reachable world: two meshes never reach a common storage; an operation on one mesh changes no other mesh record and no "
         "storage attached to another mesh (frame, all 23 operations); copy = equal kernel record + equal-valued persistent properties + nothing else carried over; old handles of an assigned-to mesh stay valid, resized, "
         "unshared; self-assignment is the identity. One refuted corner (known finding F6). Tie: multi-mesh scripts in lock step on the real library (poly/tet/hex, mixed assignment) under ASan/UBSan; independence oracle.",
         "Coq invariant/frame proofs over a heap model; lock-step correspondence on multi-mesh scripts; snapshot-independence oracle", "6 C13"),
 "C14": ("proof", "Theorems for every reachable world of the registry model: persistent implies shared; shared implies named and unique (for histories without set_name on a shared property; refuted with witness otherwise - known "
         "finding D10); tracker = exactly the live attached storages; a storage exists iff referenced; request returns the existing shared storage iff one exists; create_* refuses duplicates; private never found; failing "
         "transitions change nothing; a handle outliving its mesh keeps its data, detached. Memory safety proper is observed by sanitizers over all 120 destruction orders, not proved.",
         "Coq invariant by induction over registry histories + refutation witness; lock-step correspondence; invariant oracle under ASan/UBSan", "6 C14"),
})
CHECKS.update({
 "C06": ("proof", "OVMB: byte-level writer model equal to the real writer byte for byte; reader model in lock step on mutated files; the round trip decode(encode m) = m is PROVED for every mesh (implementation reader and the reader written from the format description), "
         "as is the reading of every member of an explicit family of re-encodings (split spans, wider integers, variable valence, handle offsets, skippable chunks). "
         "OVM ASCII: token-level writer/reader models; round trip (twice) proved for every mesh inside the format's limits with persistent properties of every serializable type, in every reader configuration, "
         "floating point through explicit printer/parser premises; refuted corners recorded (pending deletions D7, text-format limits). "
         "Tie: write->read->compare and byte-exact writer comparison on generated meshes with all property types.",
         "Coq proof over byte/token-level models of writer and reader + lock-step correspondence on generated and mutated files + round-trip oracle", "6 C06"),
 "C07": ("proof", "Theorems: the OVMB reader model (decoder primitives need()-guarded as in the repaired code, explicit wrap-around arithmetic, fuelled chunk loop) never reaches the out-of-bounds outcome and success implies every stored handle in range "
         "and every property sized, in every reader configuration (incl. hexahedral class with re-ordering); the ASCII reader model (istream-lite validated token-wise against std::istringstream) is total (no spin, no UB) under an explicit allocation bound and success implies a valid mesh. "
         "Memory safety of the C++ object graph itself is observed by ASan/UBSan/_GLIBCXX_ASSERTIONS on ~14k (OVMB) + ~17k (ASCII) mutated inputs per quick run, not proved.",
         "Coq totality/validity proofs over reader models + lock-step correspondence on field-aware mutations, truncations, noise under sanitizers", "6 C07"),
 "C18": ("proof", "Theorems on the OVMB reader/writer models: every strict prefix of the writer's output is rejected; inconsistent framing fields are rejected per field class; a stream failing after k bytes never yields Ok. "
         "Tie: every truncation length of small files, every header/sub-header field x boundary values, chunk drop/duplicate/reorder, fault-injecting streambuf on read and write side, in lock step.",
         "Coq proof (prefix rejection, framing classes, stream failure) + lock-step correspondence with fault injection", "6 C18"),
 "C15": ("proof", "Theorems on the tet kernel model (built on the kernel model): shape invariant over histories incl. rejected calls; get_cell_vertices / opposite vertex / opposite halfface contracts; vertex iterator; TetTopology label tables decided over "
         "the whole finite domain and the TetTopology constructor for every well-formed tet; collapse_edge: the cell-set characterisation (star of a removed, one rebuilt cell per tet with a replaced by b in the same cyclic order, "
         "others untouched) in deferred mode and through collection in the immediate modes, returned handle; property-value behaviour refuted (known finding collapse-props-parity) with the strongest partial statement proved. Tie: tet scripts in lock step; brute-force oracles.",
         "Coq proof over the tet kernel model (+ whole-domain vm_compute for label tables) + lock-step correspondence + shape/opposite/collapse oracles", "6 C15"),
 "C16": ("proof", "Theorems on the hex kernel model: shape invariant; layout convention for cells created from 8 vertices or accepted with topology check (repaired code: the re-ordered list is verified); orientation tables over the whole domain; "
         "hex_vertices cube pattern, layout and vertex-disjoint opposite faces for every well-formed stored cell, and every cell the checked add_cell(halffaces) accepts on faces with four distinct vertices is well formed (repaired code: "
         "eight distinct vertices, disjoint top/bottom); sheet circulators. Tie: hex scripts incl. all 720 permutations of a valid halfface list (thorough) in lock step; layout and vertex-count oracles.",
         "Coq proof over the hex kernel model (+ whole-domain vm_compute for orientation tables) + lock-step correspondence + layout oracle", "6 C16"),
})
NOT_YET = {}
def main():
    props = [json.loads(l)["id"] for l in open(os.path.join(VERIF, "properties.jsonl"))]
    checks = []
    for pid in props:
        if pid not in CHECKS: continue
        cat, text, tech, ref = CHECKS[pid]
        checks.append({"property_id": pid, "quick_cmd": "bin/check %s quick" % pid, "thorough_cmd": "bin/check %s thorough" % pid,
                       "evidence_file": "evidence/%s.json" % pid, "replay_cmd_template": "bin/check %s quick --replay {path}" % pid,
                       "engine": "coq+lockstep", "level_claimed": {"category": cat, "text": text, "design_ref": "DESIGN.md section " + ref},
                       "level_note": LEVEL_NOTE, "technique": tech})
    na = [{"property_id": p, "reason": NOT_YET.get(p, "check not built yet in this session (model/theorems under construction); no claim is made")}
          for p in props if p not in CHECKS]
    m = {"version": 1, "setup_cmd": "bin/setup",
         "hooks": {"guard": "OVM_VERIF_HOOKS", "enable": "harness/build.py compiles /repo's sources with -DOVM_VERIF_HOOKS (no hook is currently needed: no source line is guarded)",
                   "baseline_off_cmd": "cmake --build /repo/_build && ctest --test-dir /repo/_build -j8 --timeout 900", "source_commits": [], "add_only": True},
         "engines": [{"name": "coq+lockstep", "path": "bin/check", "serves_properties": sorted(CHECKS), "kind_free_text":
                      "Coq 8.16 theorems about a Gallina model (coq/), leaves regenerated from /repo by translate/leafs.py, model extracted to OCaml and run in lock step with the library rebuilt from /repo (harness/), impl-side brute-force oracles for the failing-input search"}],
         "checks": checks, "not_applicable": na,
         "notes": "See DESIGN.md. KNOWN_FINDINGS.json lists fixed and known genuine defects."}
    json.dump(m, open(os.path.join(VERIF, "MANIFEST.json"), "w"), indent=1)
if __name__ == "__main__":
    main()
