"""OVM-ASCII (.ovm) half of C06 (round trip) and C07 (reader memory-safe and terminating on any bytes; success means a valid
mesh).  lib/checks_ovmb.py (binary half) calls ascii_part_C06(ctx) / ascii_part_C07(ctx) after its own part; check_C06A /
check_C07A run the ASCII part alone (development ids, not manifest properties).

Each part: (1) coq_prove of its own property file (counts ADDED to ctx.cov), (2) lock step of the extracted Coq model
(ocaml/asciidriver.ml) with the real FileManager (harness/run_ascii.cc, library rebuilt from /repo) on generated cases
(gen/asciigen.py), (3) the impl-side oracles of the harness (crash / sanitizer abort / timeout, mesh_valid on every success,
write->read->write fixpoint)."""
import concurrent.futures as cf
import hashlib, json, os, re, shutil
import fw

# Signatures of genuine defects of the unchanged tree that are reported but not counted.  The reader defects found with this
# machinery (D4 spin, F1 rejected face/cell, E empty property name, F uninitialised locals / n_cells) are FIXED in /repo and
# are therefore NOT listed: their replays run first (corpus) and are violations if they ever come back.  What remains are the
# two recorded findings of KNOWN_FINDINGS.json (property C06), matched by case-name prefix AND by the oracle that fails:
KNOWN_SIGNATURES = [
    # (KNOWN_FINDINGS id, write-case name prefix, accepted rt= values, text for ctx.known)
    ("D7", "pending_", ("readfail", "differs", "timeout"),
     "the ASCII writer prints n_vertices()/n_edges()/... but iterates live entities only: a mesh with pending deletions is "
     "written as a file that does not read back (D7; gen/asciigen.py pending_meshes)"),
    ("ascii-format-limits", "limit_", ("readfail", "differs", "timeout", "unstable"),
     "values the text format cannot carry (whitespace char values, non-finite floating point, property names ending in a "
     "quote or containing a newline) do not round-trip (ascii-format-limits; gen/asciigen.py limit_meshes)"),
]

ENV = {"ASAN_OPTIONS": "detect_leaks=0:abort_on_error=1", "UBSAN_OPTIONS": "halt_on_error=1:print_stacktrace=0"}
NPROC = max(2, min(16, (os.cpu_count() or 4)))

def known_ids():
    return {f.get("id") for f in fw.known_findings("C06")}

# ------------------------------------------------------------------------------------------------ running case files

def split_cases(text):
    """case text -> list of (id, block text)"""
    out = []
    for blk in re.split(r"(?m)^(?=case )", text):
        if not blk.startswith("case "): continue
        out.append((blk.split(None, 2)[1], blk))
    return out

def parse_output(out):
    """harness / driver output -> {id: [lines]}"""
    res, cur = {}, None
    for ln in out.split("\n"):
        if ln.startswith("== "):
            cur = ln[3:].strip(); res[cur] = []
        elif cur is not None and ln != "":
            res[cur].append(ln)
    return res

def run_chunks(exe, blocks, workdir, tag, extra_args=(), timeout=1500, env=None):
    """run `exe <file>` on the case blocks, split over NPROC processes; -> {id: lines}"""
    if not blocks: return {}
    os.makedirs(workdir, exist_ok=True)
    n = min(NPROC, max(1, len(blocks) // 20))
    chunks = [blocks[i::n] for i in range(n)]
    files = [os.path.join(workdir, "%s-%d.cases" % (tag, i)) for i in range(len(chunks))]
    def one(arg):
        """run one chunk; when the process dies in the middle (a model case that exhausts the stack / memory), the case it
        died on is marked and the rest of the chunk is run again"""
        p, ch = arg
        out, errs, todo, rounds = {}, [], list(ch), 0
        while todo and rounds < 8:
            rounds += 1
            with open(p, "w") as f: f.write("".join(b for _, b in todo))
            rc, o, e = fw.sh([exe] + list(extra_args) + [p], timeout=timeout, env=env)
            got = parse_output(o)
            out.update(got)
            if rc == 0: break
            missing = [i for i, (cid, _) in enumerate(todo) if cid not in got]
            if not missing:
                errs.append("rc=%d %s" % (rc, e[-300:])); break
            k = missing[0]
            # the last case with output may be the one that died half-way: keep what it printed, mark the first missing one
            out[todo[k][0]] = ["!! DIED rc=%d %s" % (rc, e.strip()[-120:].replace("\n", " "))]
            todo = todo[k + 1:]
        return out, errs
    res = {}
    with cf.ThreadPoolExecutor(max_workers=n) as ex:
        for (out, errs) in ex.map(one, list(zip(files, chunks))):
            res.update(out)
            if errs: res.setdefault("__errors__", []).extend(errs)
    return res

def norm_read(lines):
    """comparison form of a read case: the stream state of an exception line is not compared (the model does not track it)"""
    out = []
    for l in lines:
        if l.startswith("result=exn:"): l = l.split(" st=")[0]
        out.append(l)
    return out

class Tools:
    pass

def build_tools(ctx, need_plain):
    t = Tools()
    t.san = fw.build_harness(ctx, "san", "run_ascii")
    t.plain = fw.build_harness(ctx, "plain", "run_ascii") if need_plain else None
    try:
        t.model = fw.build_driver(ctx, "Extract/ExtractAscii.v", "asciidriver.ml", "asciidriver")
    except RuntimeError as ex:
        ctx.broken.append({"kind": "model-build", "name": "Extract/ExtractAscii.v", "detail": str(ex)[-2000:]})
        t.model = None
    t.work = os.path.join(fw.BUILD, "run", "ascii-%s-%d" % (ctx.id, os.getpid()))
    shutil.rmtree(t.work, ignore_errors=True)
    os.makedirs(t.work, exist_ok=True)
    return t

def bytes_of_block(blk):
    return "".join(l.split()[1] for l in blk.split("\n") if l.startswith("hex ") and len(l.split()) > 1 and l.split()[1] != "-")

def lockstep_read(ctx, t, blocks, what, stats):
    """blocks: [(id, case text)] of read cases.  Runs the real reader (san, or plain under RLIMIT_AS for aslimit cases) and
    the model, compares, applies the impl-side oracles."""
    san_b = [b for b in blocks if " aslimit=" not in b[1].split("\n", 1)[0]]
    pl_b = [b for b in blocks if " aslimit=" in b[1].split("\n", 1)[0]]
    impl = {}
    if t.san: impl.update(run_chunks(t.san, san_b, t.work, what + "-san", ["--scratch", t.work], env=ENV))
    if pl_b and t.plain: impl.update(run_chunks(t.plain, pl_b, t.work, what + "-plain", ["--scratch", t.work]))
    model = run_chunks(t.model, blocks, t.work, what + "-model") if t.model else {}
    # allocation class: where the model reports an allocation failure for a case that ran on the sanitized build (whose
    # allocator aborts or maps tens of GB instead of throwing), the real reader is run again on the unsanitized build under
    # RLIMIT_AS = the model's limit, and that result is the one compared
    again = [(cid, blk.replace(" api=", " aslimit=4096 api=", 1)) for (cid, blk) in san_b
             if (model.get(cid) or [""])[0].startswith("result=exn:") and not (impl.get(cid) or [""])[0].startswith("result=exn:")]
    if again:
        if t.plain is None: t.plain = fw.build_harness(ctx, "plain", "run_ascii")
        if t.plain:
            impl.update(run_chunks(t.plain, again, t.work, what + "-plain2", ["--scratch", t.work]))
            stats["rerun_plain"] = stats.get("rerun_plain", 0) + len(again)
    for side, d in (("harness", impl), ("model driver", model)):
        if "__errors__" in d:
            ctx.broken.append({"kind": "correspondence", "name": "ascii %s: %s exited abnormally" % (what, side), "detail": d.pop("__errors__")[:3]})
    nd = 0
    for (cid, blk) in blocks:
        a = impl.get(cid); b = model.get(cid)
        head = blk.split("\n", 1)[0]
        if a is None:
            if t.san and (t.plain or " aslimit=" not in head):
                ctx.broken.append({"kind": "correspondence", "name": "ascii %s: no harness output for %s" % (what, cid), "detail": head})
            continue
        stats["evaluations"] += 1
        r0 = a[0] if a else "<empty>"
        m0 = (b[0] if b else "")
        # allocation range the model does not decide: the model's single limit (o_alloc = 64 KiB in the driver, so that no
        # count-driven loop of the extracted code runs long) says bad_alloc, the real process (RLIMIT_AS 4 GiB) could allocate:
        # any defined outcome is accepted there - also a time-out, the loop being bounded by an allocatable count - a crash
        # is not (the real run may also get past the model's failing allocation and end in a later length_error).
        if m0.startswith("result=exn:bad_alloc") and not r0.startswith("result=exn:bad_alloc") and not any(l.startswith("!! CRASH") or l.startswith("!O ") for l in a):
            stats["alloc_range_skipped"] = stats.get("alloc_range_skipped", 0) + 1
            continue
        stats["outcomes"][r0.split(" ")[0]] = stats["outcomes"].get(r0.split(" ")[0], 0) + 1
        # impl-side oracles: independent of the model
        bad = [l for l in a if l.startswith("!! ") or l.startswith("!O ")]
        if bad:
            ctx.violations.append({"kind": "input", "oracle": "C07-ascii " + ("no-crash/no-timeout" if bad[0].startswith("!!") else "mesh_valid"),
                                   "what": "%s on read case %s (%s)" % (bad[0], cid, head), "case": head, "bytes_hex": bytes_of_block(blk)[:200000],
                                   "impl_says": a[:3], "model_says": (b or ["<none>"])[:3]})
        if r0.startswith("result=exn:") and not (r0.startswith("result=exn:length_error") or r0.startswith("result=exn:bad_alloc")):
            ctx.violations.append({"kind": "input", "oracle": "C07-ascii only allocation failures may be reported by an exception",
                                   "what": "%s on read case %s (%s)" % (r0, cid, head), "case": head, "bytes_hex": bytes_of_block(blk)[:200000]})
        # non-trivial: the reader got past the vertex section (at least one entity added) or succeeded
        nv_line = next((l for l in a if l.startswith("nv ")), "nv 0")
        if r0.startswith("result=true") or nv_line != "nv 0" or r0.startswith("result=exn"):
            stats["nontrivial"].add(hashlib.sha256((head.split(" ", 2)[2] + bytes_of_block(blk)).encode()).hexdigest()[:16])
        if b is None:
            if t.model: ctx.broken.append({"kind": "correspondence", "name": "ascii %s: no model output for %s" % (what, cid), "detail": head})
            continue
        if norm_read(a) != norm_read(b):
            nd += 1
            if nd <= 3:
                na, nb = norm_read(a), norm_read(b)
                k = next((i for i in range(min(len(na), len(nb))) if na[i] != nb[i]), min(len(na), len(nb)))
                ctx.broken.append({"kind": "correspondence", "name": "ascii reader model vs FileManager::read%s (%s)" % ("File" if "api=path" in head else "Stream", what),
                                   "detail": {"case": head, "bytes_hex": bytes_of_block(blk)[:20000], "first_diff_line": k,
                                              "impl_says": (na[k] if k < len(na) else "<missing>")[:400], "model_says": (nb[k] if k < len(nb) else "<missing>")[:400]}})
    stats["divergences"] += nd

def replay_blocks(ctx):
    """--replay <file>: a replay JSON written by an earlier run (read case: header line + bytes; write case: script) is
    re-run first, exactly as recorded"""
    path = getattr(ctx, "replay", None)
    if not path: return [], ""
    try:
        rec = json.load(open(path))
    except Exception:
        return [], ""
    recs = [rec] + [b.get("detail", {}) for b in rec.get("broken", []) if isinstance(b.get("detail"), dict)]
    rblocks, wtext = [], ""
    for i, r in enumerate(recs):
        head = r.get("case")
        if head and "bytes_hex" in r and " mode=read" in head:
            hexs = r["bytes_hex"]
            parts = head.split()
            parts[1] = "replay%d" % i
            body = "\n".join("hex " + hexs[j:j + 4000] for j in range(0, max(len(hexs), 1), 4000)) if hexs else "hex -"
            rblocks.append(("replay%d" % i, " ".join(parts) + "\n" + body + "\nend\n"))
        if r.get("script"):
            lines = list(r["script"])
            if lines and lines[0].startswith("case "):
                p0 = lines[0].split(); p0[1] = "w0_replay%d" % i; lines[0] = " ".join(p0)
                wtext += "\n".join(l for l in lines if l) + "\n"
    return rblocks, wtext

def new_stats():
    return {"evaluations": 0, "nontrivial": set(), "outcomes": {}, "divergences": 0, "alloc_range_skipped": 0, "rerun_plain": 0}

# ------------------------------------------------------------------------------------------------ token differential

def token_differential(ctx, t):
    """the istream-lite against a real std::istringstream: every token of length <= 4 (quick: 3 on the second alphabet) over
    the two alphabets, plus boundary-value tokens; value, state bits and characters consumed of two extractions in a row"""
    if not (t.san and t.model): return 0
    total = 0
    alpha2 = "0123456789+-.eE \n\t:\"#".encode().hex()
    runs = [(["--tokens", "4"], "len<=4 over {0-9 + - . e x a space}"), (["--tokens", "3", alpha2], "len<=3 over {0-9 + - . e E space nl tab : \" #}")]
    for args, name in runs:
        rc1, o1, e1 = fw.sh([t.san] + args, timeout=600, env=ENV)
        rc2, o2, e2 = fw.sh([t.model] + args, timeout=600)
        a, b = o1.split("\n"), o2.split("\n")
        total += len(a) - 1
        if rc1 != 0 or rc2 != 0 or a != b:
            k = next((i for i in range(min(len(a), len(b))) if a[i] != b[i]), min(len(a), len(b)))
            ctx.broken.append({"kind": "correspondence", "name": "istream-lite token differential (%s)" % name,
                               "detail": {"impl_says": a[k] if k < len(a) else "<missing rc=%d %s>" % (rc1, e1[-200:]), "model_says": b[k] if k < len(b) else "<missing rc=%d %s>" % (rc2, e2[-200:])}})
    # boundary values: around 2^15/16/31/32/63/64, 10^k, signs, leading zeros, suffixes, float corners
    vals = []
    for bb in (15, 16, 31, 32, 63, 64):
        for dd in (-2, -1, 0, 1, 2): vals.append(2 ** bb + dd)
    vals += [10 ** k for k in range(0, 25)] + [10 ** k - 1 for k in range(1, 25)] + [42949672955, 429496729, 4294967300, 1844674407370955161, 18446744073709551610, 99999999999999999999999999]
    toks = set()
    for v in vals:
        for pre in ("", "-", "+", "00", "-00", "+0"):
            for suf in ("", " 7", "x", ".5", "e3", " -1"): toks.add(pre + str(v) + suf)
    toks |= {"1e308", "1e309", "-1e309", "1e-400", "1e38", "3.5e38", "-3.5e38", "1e39", "1e-46", "0.1", "1.", "1.e", "1e+", "1e-", "1e+5", "1E5", "1.5E-3x", ".e5", "-.5",
             "+.", "00012", "000", "0x10", "-0", "+0", "- 1", "1e5e5", "1.2.3", "1e5.5", "123456789012345678901234567890", "4.9e-324", "2.2250738585072014e-308",
             "1.7976931348623157e308", "1.7976931348623159e308", "3.4028235e38", "3.4028236e38", "16777217", "0.1e", "1ee", "e5", "E", "+e", "1e 5", "\t 12\n", "\n\n5", "\r\n7 8"}
    inp = "\n".join(x.encode().hex() for x in sorted(toks)) + "\n"
    rc1, o1, e1 = fw.sh([t.san, "--toklist"], input=inp, timeout=600, env=ENV)
    rc2, o2, e2 = fw.sh([t.model, "--toklist"], input=inp, timeout=600)
    a, b = o1.split("\n"), o2.split("\n")
    total += len(a) - 1
    if rc1 != 0 or rc2 != 0 or a != b:
        k = next((i for i in range(min(len(a), len(b))) if a[i] != b[i]), min(len(a), len(b)))
        ctx.broken.append({"kind": "correspondence", "name": "istream-lite token differential (boundary values)",
                           "detail": {"impl_says": a[k] if k < len(a) else "<missing>", "model_says": b[k] if k < len(b) else "<missing>"}})
    return total

# ------------------------------------------------------------------------------------------------ write side

def writer_lockstep(ctx, t, wtext, stats):
    """write cases: the real writer's bytes = write_ascii(observed mesh); writeFile = writeStream; the write->read->write
    fixpoint oracle.  Returns [(case id, text bytes hex)] of the files the real writer produced."""
    if not t.san: return []
    blocks = split_cases(wtext)
    impl = run_chunks(t.san, blocks, t.work, "write-san", ["--scratch", t.work], env=ENV)
    if "__errors__" in impl:
        ctx.broken.append({"kind": "correspondence", "name": "ascii write: harness exited abnormally", "detail": impl.pop("__errors__")[:3]})
    # the model runs write_ascii on the mesh block the harness observed
    enc = []
    for (cid, blk) in blocks:
        a = impl.get(cid)
        if not a: continue
        keep = [l for l in a if l.split(" ", 1)[0] in ("nv", "E", "F", "C", "POS", "del", "W")]
        enc.append((cid, "case %s mode=encode\n%s\nend\n" % (cid, "\n".join(keep))))
    model = run_chunks(t.model, enc, t.work, "write-model") if t.model else {}
    kids = known_ids()
    produced = []
    for (cid, blk) in blocks:
        a = impl.get(cid)
        head = blk.split("\n", 1)[0]
        if not a:
            ctx.broken.append({"kind": "correspondence", "name": "ascii write: no harness output for %s" % cid, "detail": head}); continue
        stats["evaluations"] += 1
        get = lambda ls, k: next((l[len(k):] for l in ls if l.startswith(k)), None)
        text = get(a, "text "); rt = get(a, "rt="); pend = get(a, "pending="); fsame = get(a, "file=")
        died = next((l for l in a if l.startswith("!! ")), None)
        if text is None:
            ctx.violations.append({"kind": "input", "oracle": "C06-ascii writer must not crash", "what": "%s in write case %s" % (died, cid), "script": blk.split("\n")}); continue
        produced.append((cid, text if text != "-" else ""))
        if rt is None and died: rt = "timeout" if "TIMEOUT" in died else "crash"
        name = cid.split("_", 1)[1] if "_" in cid else cid
        known = next((k for k in KNOWN_SIGNATURES if name.startswith(k[1])), None)
        if rt != "ok" or fsame != "same":
            if known and known[0] in kids and rt in known[2] and fsame == "same":
                if known[3] not in ctx.known: ctx.known.append(known[3])
            else:
                ctx.violations.append({"kind": "input", "oracle": "C06-ascii write->read->write fixpoint" if rt != "ok" else "C06-ascii writeFile = writeStream",
                                       "what": "rt=%s file=%s pending=%s in write case %s" % (rt, fsame, pend, cid), "script": blk.split("\n"), "text_hex": (text or "")[:20000],
                                       "oracle_lines": [l for l in a if l.startswith("!O ")]})
        elif pend == "0" and len(text) > 60:
            stats["nontrivial"].add(hashlib.sha256(text.encode()).hexdigest()[:16])
        b = model.get(cid)
        if b is None:
            if t.model: ctx.broken.append({"kind": "correspondence", "name": "ascii write: no model output for %s" % cid, "detail": head})
            continue
        mtext = get(b, "text "); mpend = get(b, "pending="); mrt = get(b, "model_rt=")
        if mtext != text or mpend != pend:
            stats["divergences"] += 1
            if stats["divergences"] <= 3:
                k = next((i for i in range(min(len(mtext or ""), len(text))) if (mtext or "")[i] != text[i]), 0)
                ctx.broken.append({"kind": "correspondence", "name": "ascii writer model (write_ascii) vs FileManager::writeStream",
                                   "detail": {"case": cid, "script": blk.split("\n"), "first_diff_hex_offset": k, "impl_says": text[max(0, k - 40):k + 80], "model_says": (mtext or "<none>")[max(0, k - 40):k + 80],
                                              "pending_impl": pend, "pending_model": mpend}})
        elif rt == "ok" and mrt != "ok":
            ctx.broken.append({"kind": "correspondence", "name": "ascii round trip: the real library round-trips this mesh, the model does not",
                               "detail": {"case": cid, "model_rt": mrt, "script": blk.split("\n")}})
    return produced

# ------------------------------------------------------------------------------------------------ the two parts

def add_coq(ctx, prop_v):
    """coq_prove overwrites the obligation counters: save them around the call and ADD"""
    ob, di, th = ctx.cov.get("obligations", 0), ctx.cov.get("discharged", 0), list(ctx.theorems)
    cmd = ctx.cov.get("checker_cmd", "")
    ok = fw.coq_prove(ctx, prop_v)
    ctx.cov["obligations"] = ob + ctx.cov.get("obligations", 0)
    ctx.cov["discharged"] = di + ctx.cov.get("discharged", 0)
    ctx.theorems = th + [x for x in ctx.theorems if x not in th]
    if cmd and cmd != ctx.cov.get("checker_cmd"): ctx.cov["checker_cmd"] = cmd + " ; " + ctx.cov["checker_cmd"]
    ctx.cov["samples"] += [{"theorem": s} for s in fw.theorem_statements(prop_v, 3)]
    return ok

def finish_stats(ctx, stats, rule):
    ctx.cov["evaluations"] += stats["evaluations"]
    ctx.cov["distinct_nontrivial"] += len(stats["nontrivial"])
    ctx.cov["rule"] = (ctx.cov.get("rule", "") + " || " if ctx.cov.get("rule") else "") + rule
    ctx.cov.setdefault("ascii", {}).update({"outcomes": dict(sorted(stats["outcomes"].items())), "divergences": stats["divergences"],
                                            "alloc_range_skipped": stats.get("alloc_range_skipped", 0), "rerun_on_plain_build": stats.get("rerun_plain", 0)})

def ascii_part_C07(ctx):
    import asciigen
    add_coq(ctx, "Props/Properties_C07_ascii.v")
    thorough = not ctx.quick()
    cases, expect, wtext, wdescs = asciigen.generate(ctx.seed, thorough)
    blocks = split_cases(cases.text())
    if thorough:      # more seeds of the same generator (ids made unique by a seed prefix; the corpus runs once)
        for k in range(1, 6):
            more, _, _, _ = asciigen.generate(ctx.seed + 7919 * k, True)
            blocks += [("s%d:%s" % (k, cid), blk.replace("case " + cid, "case s%d:%s" % (k, cid), 1))
                       for (cid, blk) in split_cases(more.text()) if not cid.startswith("corpus:")]
    t = build_tools(ctx, need_plain=any(" aslimit=" in b.split("\n", 1)[0] for _, b in blocks))
    ntok = token_differential(ctx, t)
    ctx.cov["evaluations"] += ntok
    ctx.cov.setdefault("ascii", {})["token_lines"] = ntok
    stats = new_stats()
    rb, _ = replay_blocks(ctx)
    if rb: lockstep_read(ctx, t, rb, "replay", stats)
    # corpus first: the fixed defects must now read as recorded (and never time out / crash)
    corpus = [b for b in blocks if b[0].startswith("corpus:")]
    lockstep_read(ctx, t, corpus, "corpus", stats)
    if t.san:
        got = run_chunks(t.san, corpus, t.work, "corpus-expect", ["--scratch", t.work], env=ENV)
        for (cid, exp) in expect:
            r = (got.get(cid) or ["<none>"])[0]
            if not r.startswith("result=" + exp):
                ctx.violations.append({"kind": "input", "oracle": "C07-ascii corpus of fixed defects", "what": "%s gives %s, recorded %s" % (cid, r, exp),
                                       "case": next(b for i, b in corpus if i == cid).split("\n", 1)[0], "bytes_hex": bytes_of_block(next(b for i, b in corpus if i == cid))})
    rest = [b for b in blocks if not b[0].startswith("corpus:")]
    lockstep_read(ctx, t, rest, "mutated", stats)
    finish_stats(ctx, stats,
        "ASCII: gen/asciigen.py (one SplitMix64 state from VERIF_SEED): structured .ovm files of generated meshes (empty, vertices only, no cells, tet/hex/mixed/"
        "degenerate/non-manifold, properties of every serializable type on every entity kind) under field-aware mutation (counts, valences, handles, section keywords, "
        "order, truncation at every token of small files, property headers and values, layout, stray bytes, noise) plus the corpus of fixed reader defects, each with a "
        "configuration mesh=poly|tet|hex x topology check x bottom-up x stream|path API; run on the real FileManager (ASan+UBSan+_GLIBCXX_ASSERTIONS, fork + 2 s alarm; "
        "declared sizes that cannot be allocated on the unsanitized build under RLIMIT_AS) and on the extracted read_ascii; result, stream state and the complete mesh "
        "block (definitions, positions as bit patterns, incidence caches, persistent properties) compared, also after `false`; impl-side oracles: no crash/timeout, only "
        "allocation exceptions, mesh_valid on success.  Token differential of the istream-lite against std::istringstream first.  distinct_nontrivial = distinct "
        "(configuration, bytes) whose reading added at least one entity or succeeded")
    ctx.assumptions += ["ASCII: floating-point text -> value is strtod/strtof (OCaml float_of_string in the model driver), assumed total; only which characters are consumed is modelled and proved about",
                        "ASCII: allocation is modelled by one byte limit o_alloc; the totality theorem needs o_alloc < 2^33 so that every count that can be allocated fits an int handle"]
    shutil.rmtree(t.work, ignore_errors=True)

def ascii_part_C06(ctx):
    import asciigen
    add_coq(ctx, "Props/Properties_C06_ascii.v")
    if os.path.exists(os.path.join(fw.COQ, "Props/Properties_C06_ascii_props.v")):
        add_coq(ctx, "Props/Properties_C06_ascii_props.v")      # the round trip WITH properties, every reader configuration (IO/Ascii2*.v)
    thorough = not ctx.quick()
    cases, expect, wtext, wdescs = asciigen.generate(ctx.seed, thorough)
    if thorough:
        for k in range(1, 6):
            _, _, wt, _ = asciigen.generate(ctx.seed + 7919 * k, True)
            wtext += "".join(blk.replace("case " + cid, "case w%d%s" % (k, cid[1:]) if False else "case " + cid.split("_", 1)[0] + "s%d_" % k + cid.split("_", 1)[1], 1)
                             for (cid, blk) in split_cases(wt))
    t = build_tools(ctx, need_plain=False)
    stats = new_stats()
    rb, rw = replay_blocks(ctx)
    if rb: lockstep_read(ctx, t, rb, "replay", stats)
    produced = writer_lockstep(ctx, t, rw + wtext, stats)
    # every file the real writer produced, read back in lock step under every configuration
    cfgs = [(m, c, b, a) for m in ("poly", "tet", "hex") for c in (0, 1) for b in (0, 1) for a in ("stream", "path")]
    if not thorough: cfgs = [x for x in cfgs if x[3] == "stream" or (x[1], x[2]) == (1, 1)]
    blocks = []
    for (cid, hexs) in produced:
        for (m, c, b, a) in cfgs:
            rid = "rw:%s:%s%d%d%s" % (cid, m, c, b, a[0])
            body = "\n".join("hex " + hexs[i:i + 4000] for i in range(0, max(len(hexs), 1), 4000)) if hexs else "hex -"
            blocks.append((rid, "case %s mode=read mesh=%s check=%d bu=%d api=%s\n%s\nend\n" % (rid, m, c, b, a, body)))
    lockstep_read(ctx, t, blocks, "written", stats)
    # the valid generated files (Python-side rendering, independent of the writer)
    valid = [b for b in split_cases(cases.text(only=lambda h, tags: "valid" in tags))]
    lockstep_read(ctx, t, valid, "valid", stats)
    finish_stats(ctx, stats,
        "ASCII: write cases of gen/asciigen.py (generated meshes incl. empty / no cells / degenerate valences / every property type on every kind / pending deletions / "
        "format-limit values) on the real writer: bytes of writeStream = write_ascii(observed mesh) byte for byte, writeFile = writeStream, impl-side "
        "write->read->write oracle (same counts, definitions handle for handle, properties to printed precision; second round trip bit-identical); every written file and "
        "every Python-rendered valid file is then read in lock step (model vs real reader) under mesh type x topology check x bottom-up x API.  distinct_nontrivial = "
        "distinct written texts of meshes without pending deletions that round-trip, plus distinct (configuration, bytes) read cases that add at least one entity")
    ctx.assumptions += ["ASCII round trip: number printing is C's %g with precision 6 (OCaml Printf in the model driver); the theorem's only assumption about it is "
                        "parse (print (parse (print x))) = parse (print x) plus the stated token shape of printed numbers"]
    shutil.rmtree(t.work, ignore_errors=True)

def check_C06A(ctx):
    ascii_part_C06(ctx)

def check_C07A(ctx):
    ascii_part_C07(ctx)
