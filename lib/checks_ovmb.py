"""OVMB binary format: check_C18 (truncation / framing / stream failures), check_C07 (memory safety, termination, success means a
valid mesh - binary half), check_C06 (round trip, byte-exact writer model, description-only decoder, re-encodings, pending
deletions - binary half).  The ASCII (.ovm) half of C06/C07 lives in lib/checks_ascii.py (optional): if that module exists and
defines ascii_part_C06(ctx) / ascii_part_C07(ctx) (or ascii_part(ctx)), it is called after the binary part.

Each check: (1) regenerates coq/Gen/OvmbFormat.v from /repo (translate/leafs_io.py) and re-checks the Coq obligations,
(2) rebuilds harness/run_io.cc against /repo's working tree and the extracted model driver, (3) runs the SAME generated case
files through both and compares the canonical text line by line, (4) applies impl-side oracles that do not involve the model."""
import collections, hashlib, json, os, re, sys
import fw

# Findings of the unchanged tree that are recorded rather than repaired would be listed here as exact signatures
# (property, oracle name, regex on the case label, text); a listed signature is reported as KNOWN-FINDING and not counted.
# All OVMB findings reported so far were FIXED in /repo and nothing is suppressed for them:
#   batch 1: D1 missing return after "No EOF chunk" (df0f5cb), D6 read_edges span.first/handle_offset (7845203), ignored
#            add_face/add_cell failures (4187fd9), handle encoding None (7965d94), unchecked Decoder primitives = D5, decode_n,
#            string length word (89ba81d), make_decoder ignoring a failed stream read (7f4bba7)
#   batch 2: WriteBuffer operator[] one past the end for empty strings (b526d1c), uniform valence 0 written in the fixed form
#            (b6a70e8), variable-valence form rejected in tet/hex files (9ec0eb3), vertices not covered by VERT spans
#            (d50992f), data after the EOF chunk (7dfc66e), compression != 0 ignored (fe559de)
# Their replays are corpus cases (corpus_cases below) that run first in every check.
KNOWN_SIGNATURES = [
]

ENV = {"ASAN_OPTIONS": "detect_leaks=0:allocator_may_return_null=1", "UBSAN_OPTIONS": "halt_on_error=1"}

def known(pid, oracle, label):
    for (p, o, rx, text) in KNOWN_SIGNATURES:
        if p == pid and o == oracle and re.search(rx, label): return text
    return None

# ------------------------------------------------------------------------------------------------ tools

def regen(ctx):
    """regenerate coq/Gen/OvmbFormat.v from the current sources; a rejected translation breaks the tie"""
    try:
        import leafs_io
        text = leafs_io.gen_ovmb_format(None)
        if fw.write_if_changed(os.path.join(fw.COQ, "Gen", "OvmbFormat.v"), text):
            ctx.log("regenerated leaves changed: OvmbFormat.v")
    except Exception as ex:
        ctx.broken.append({"kind": "translator", "name": "translate/leafs_io.py:gen_ovmb_format", "detail": str(ex)[:1500]})

def tools(ctx):
    impl = fw.build_harness(ctx, "san", "run_io")
    model = None
    try:
        model = fw.build_driver(ctx, "Extract/ExtractOvmb.v", "ovmbdriver.ml", "ovmbdriver")
    except RuntimeError as ex:
        ctx.broken.append({"kind": "model-build", "name": "Extract/ExtractOvmb.v", "detail": str(ex)[-2000:]})
    return impl, model

def parse_blocks(out):
    blocks = collections.OrderedDict()
    cur = None
    for l in out.split("\n"):
        if l.startswith("== "):
            cur = l[3:].strip(); blocks[cur] = []
        elif cur is not None and l != "":
            blocks[cur].append(l)
    return blocks

def run_file(ctx, exe, path, timeout=1500, args=()):
    # the extracted model is not tail recursive (firstn / skipn / app over the whole file): give it the stack it needs
    rc, out, err = fw.sh(["bash", "-c", 'ulimit -s unlimited 2>/dev/null || ulimit -s 4000000; exec "$0" "$@"', exe] + list(args) + [path], timeout=timeout, env=ENV)
    return parse_blocks(out), rc, err

def write_cases(ctx, tag, text):
    d = os.path.join(fw.BUILD, "run")
    os.makedirs(d, exist_ok=True)
    # (pid in the name: several checks of the same property may run at once)
    p = os.path.join(d, "%s-ovmb-%s-%d.cases" % (ctx.id, tag, os.getpid()))
    open(p, "w").write(text)
    ctx.scratch_files.append(p)
    return p

class Cases:
    """a batch of read cases: id -> (label, bytes, options, expectation)"""
    def __init__(self): self.items = collections.OrderedDict(); self.n = 0
    def add(self, label, data, mesh="poly", check=0, bu=0, api="stream", fault="none", expect=None, base=None, spec=0):
        cid = "r%d" % self.n; self.n += 1
        self.items[cid] = {"label": label, "data": data, "mesh": mesh, "check": check, "bu": bu, "api": api, "fault": fault,
                           "expect": expect, "base": base, "spec": spec}
        return cid
    def text(self):
        import iogen
        out = []
        for cid, c in self.items.items():
            out.append("case %s mode=read mesh=%s check=%d bu=%d api=%s fault=%s spec=%d\nhex %s\nend\n" % (
                cid, c["mesh"], c["check"], c["bu"], c["api"], c["fault"], c["spec"], iogen.hx(c["data"])))
        return "".join(out)

def replay_record(ctx, c, cid, impl_lines, model_lines, oracle, what):
    return {"kind": "input", "oracle": oracle, "what": what, "case": c["label"],
            "options": {k: c[k] for k in ("mesh", "check", "bu", "api", "fault")},
            "bytes_hex": c["data"].hex(), "impl_says": impl_lines[:6], "model_says": (model_lines or [])[:6],
            "replay_cmd": "printf 'case x mode=read mesh=%s check=%d bu=%d api=%s fault=%s\\nhex %s\\nend\\n' | build/bin/san/run_io" % (
                c["mesh"], c["check"], c["bu"], c["api"], c["fault"], c["data"].hex() or "-")}

def result_of(lines):
    for l in lines:
        if l.startswith("result="): return l.split()[0][7:]
        if l.startswith("!!"): return l
    return "?"

def strip_for_compare(lines, api):
    out = []
    for l in lines:
        if l.startswith("!O") or l.startswith("spec="): continue
        if api == "path" and l.startswith("result="): l = l.split()[0]
        out.append(l)
    return out

def is_big(data):
    """a header declaring more than 2^22 entities of some kind (allocation of that size is outside what ASan can do in 2 s)"""
    if len(data) < 48 or data[:8] != b"OVMB\n\r\n\xff": return False
    return any(int.from_bytes(data[o:o + 8], "little") > (1 << 22) for o in (16, 24, 32, 40))

def run_big(ctx, tag, cases):
    """declared sizes that cannot be allocated: unsanitized build under `ulimit -v` (DESIGN 4.2); accepted outcomes are an error
    result, a std::exception turned into OtherError, or Ok with a mesh that passes mesh_valid; crash / hang are violations"""
    big = Cases()
    for cid, c in cases.items.items():
        if is_big(c["data"]): big.items[cid] = c
    if not big.items: return {}
    plain = fw.build_harness(ctx, "plain", "run_io")
    if not plain: return {}
    path = write_cases(ctx, tag + "-big", big.text())
    # 1.5 GB of address space: what does not fit fails fast with bad_alloc; what fits may take a few seconds to zero-fill
    rc, out, err = fw.sh(["bash", "-c", 'ulimit -v 1500000; exec "$0" "$@"', plain, "--nomesh", "--alarm", "20", path], timeout=2400)
    return parse_blocks(out)

def compare_read(ctx, tag, cases, impl, model, oracles=()):
    """runs a batch on both sides; correspondence + impl-side oracles.  Returns (impl blocks, model blocks)."""
    if not cases.items: return {}, {}
    bigb = run_big(ctx, tag, cases) if impl else {}
    normal = Cases()
    for cid, c in cases.items.items():
        if not is_big(c["data"]): normal.items[cid] = c
    path = write_cases(ctx, tag, normal.text())
    ib, rc, err = run_file(ctx, impl, path) if impl else ({}, 0, "")
    mb, rc2, err2 = run_file(ctx, model, path) if model else ({}, 0, "")
    ib.update(bigb)
    for cid in bigb: mb[cid] = ["result=BIG state=-"]
    ncmp = 0; ndiff = 0
    for cid, c in cases.items.items():
        il = ib.get(cid)
        if il is None:
            if impl: ctx.broken.append({"kind": "correspondence", "name": "run_io produced no output for a case (%s)" % tag, "detail": {"case": c["label"], "stderr": err[-500:]}})
            continue
        ml = mb.get(cid)
        ires = result_of(il)
        ctx.stats[ires] += 1
        # ---- impl-side oracles
        if ires.startswith("!!"):
            ctx.violations.append(replay_record(ctx, c, cid, il, ml, "no_crash_no_hang", "the reader crashed / was stopped by a sanitizer / hung on this input: " + ires))
            continue
        for l in il:
            if l.startswith("!O"):
                ctx.violations.append(replay_record(ctx, c, cid, il, ml, l.split()[1], l))
        if c["expect"] == "reject" and ires == "Ok":
            orc = "prefix_rejected" if c["label"].startswith("prefix") else "stream_failure_rejected" if c["fault"] != "none" else "framing_rejected"
            k = known(ctx.id, orc, c["label"])
            if k: ctx.known_hits[k] += 1
            else: ctx.violations.append(replay_record(ctx, c, cid, il, ml, orc, "an inconsistent / truncated file was read with result Ok"))
        if c["expect"] == "same" and c["base"] is not None:
            bl = ib.get(c["base"])
            if bl is not None and strip_for_compare(il, "stream") != strip_for_compare(bl, "stream"):
                k = known(ctx.id, "reencoding_same_mesh", c["label"])
                if k: ctx.known_hits[k] += 1
                else: ctx.violations.append(replay_record(ctx, c, cid, il, bl, "reencoding_same_mesh", "an encoding the format description permits does not read to the same mesh as the writer's encoding"))
        # ---- correspondence
        if ml is None:
            continue
        if ml and ml[0].startswith("result=BIG"):
            # declared sizes beyond what can be allocated here: accepted outcomes are an error result or an exception
            # (an Ok result is held to the same oracles as any other: mesh_valid ran in the harness, expectations above)
            ctx.stats["big"] += 1
            continue
        ncmp += 1
        a, b = strip_for_compare(il, c["api"]), strip_for_compare(ml, c["api"])
        if a != b:
            ndiff += 1
            if ndiff <= 3:
                first = next((i for i in range(max(len(a), len(b))) if i >= len(a) or i >= len(b) or a[i] != b[i]), 0)
                ctx.broken.append({"kind": "correspondence", "name": "decode_impl vs BinaryFileReader (%s)" % tag,
                                   "detail": {"case": c["label"], "options": {k: c[k] for k in ("mesh", "check", "bu", "api", "fault")},
                                              "bytes_hex": c["data"].hex()[:4000], "first_differing_line": first,
                                              "impl_says": a[first:first + 2] if first < len(a) else ["<missing>"],
                                              "model_says": b[first:first + 2] if first < len(b) else ["<missing>"]}})
        if c["spec"]:
            for l in ml:
                if l.startswith("spec=") and l != "spec=same" and not known(ctx.id, "reencoding_same_mesh", c["label"]):
                    ctx.broken.append({"kind": "correspondence", "name": "decode_spec vs decode_impl on a permitted re-encoding (%s)" % tag,
                                       "detail": {"case": c["label"], "model_says": l, "bytes_hex": c["data"].hex()[:4000]}})
    ctx.cov["evaluations"] += ncmp
    ctx.log("%s: %d cases, %d compared, %d differ" % (tag, len(cases.items), ncmp, ndiff))
    return ib, mb

def init_ctx(ctx):
    ctx.scratch_files = []
    ctx.stats = collections.Counter()
    ctx.known_hits = collections.Counter()
    ctx.distinct = set()

def finish_ctx(ctx, rule):
    if not (ctx.violations or ctx.broken):          # keep the case files of a failing run for inspection
        for p in ctx.scratch_files:
            try: os.remove(p)
            except OSError: pass
    for k, n in ctx.known_hits.items():
        ctx.known.append("%s (%d cases)" % (k, n))
    ctx.cov["result_distribution"] = dict(ctx.stats)
    ctx.cov["rule"] = rule
    ctx.cov["distinct_nontrivial"] = len(ctx.distinct)

def opt_matrix(rng, topo):
    """reader configuration for one case: mesh class compatible with the file's topology type most of the time"""
    meshes = {"poly": ["poly"] * 10 + ["tet", "hex"], "tet": ["tet", "poly", "tet", "poly", "tet", "hex"], "hex": ["hex", "poly", "hex", "poly", "hex", "tet"]}[topo]
    return {"mesh": rng.pick(meshes), "check": rng.below(2), "bu": rng.below(2)}

def note_distinct(ctx, data):
    ctx.distinct.add(hashlib.sha256(data).hexdigest()[:16])

# the replays of the fixed defects (corpus): run first, each must give a non-Ok result (D6: the right mesh)
def corpus_cases(cases):
    import iogen, copy
    from iogen import MAGIC, serialize
    def hdr(nv=0, ne=0, nf=0, nc=0, topo=0):
        return {"magic": MAGIC, "file_version": 1, "header_version": 1, "vertex_dim": 3, "topo_type": topo, "reserved": b"\0\0\0\0", "nv": nv, "ne": ne, "nf": nf, "nc": nc}
    def ch(c): c.setdefault("version", 0); c.setdefault("compression", 0); c.setdefault("flags", 1); return c
    def eof(): return ch({"type": b"EOF ", "body": b""})
    def vert(first, count, data=None): return ch({"type": b"VERT", "first": first, "count": count, "enc": 2, "reserved": b"\0\0\0", "data": data if data is not None else b"\0" * 24 * count})
    def topo(entity, first, count, valence, henc, handles, offset=0): return ch({"type": b"TOPO", "first": first, "count": count, "entity": entity, "valence": valence, "venc": 0, "henc": henc, "offset": offset, "valences": None, "handles": handles})
    def dirp(entries): return ch({"type": b"DIRP", "entries": [{"entity": e, "name": n, "tname": t, "default": d} for (e, n, t, d) in entries]})
    def prop(first, count, idx, data): return ch({"type": b"PROP", "first": first, "count": count, "idx": idx, "data": data})
    S = serialize
    one = iogen.dbl(1.0) + iogen.dbl(2.0) + iogen.dbl(3.0)
    cases.add("corpus:D1_empty_header_only", S({"hdr": hdr(), "chunks": []}), expect="reject")
    # around fix cc44d4f (chunk sizes were computed in 32 bits): a face chunk declaring count * valence = 2^32 + 254 handles but carrying
    # 254 must be rejected.  (With the 32-bit product the size test passed, but the guarded decoder still ran out of data, so this file
    # does NOT distinguish the two versions - only files >= 4 GB do: corpus/io/big_vert.cc; the tie for that fix is the regenerated
    # leaf topo_product_bits / vert_product_bits of Gen/OvmbFormat.v, on whose value the round-trip proofs depend.)
    cases.add("corpus:topo_size_wrap_u32", S({"hdr": hdr(nv=2, ne=1, nf=16843010), "chunks": [vert(0, 2), topo(1, 0, 1, 2, 1, [0, 1]),
                                                                                             topo(2, 0, 16843010, 255, 1, [0] * 254), eof()]}), expect="reject")
    cases.add("corpus:D1_verts_no_eof", S({"hdr": hdr(nv=1), "chunks": [vert(0, 1)]}), expect="reject")
    cases.add("corpus:D5_default_short", S({"hdr": hdr(), "chunks": [dirp([(0, b"a", b"d", b"\0\0\0\0")]), eof()]}), expect="reject")
    cases.add("corpus:D5_default_empty", S({"hdr": hdr(), "chunks": [dirp([(0, b"a", b"u8", b"")]), eof()]}), expect="reject")
    cases.add("corpus:decode_n_unchecked", S({"hdr": hdr(), "chunks": [dirp([(6, b"a", b"i32", b"\0\0\0\0")]), prop(0, 1, 0, b""), eof()]}), expect="reject")
    cases.add("corpus:strlen_unchecked", S({"hdr": hdr(), "chunks": [dirp([(6, b"a", b"s32", b"\0\0\0\0")]), prop(0, 1, 0, b"\x01\x00"), eof()]}), expect="reject")
    f = S({"hdr": hdr(nv=2, ne=1, nf=1, nc=1), "chunks": [vert(0, 2), topo(1, 0, 1, 2, 1, [0, 1]), topo(2, 0, 1, 2, 1, [0, 0]), topo(3, 0, 1, 1, 1, [0]), eof()]})
    cases.add("corpus:addface_failure_ignored", f, check=1, expect="reject")
    g = S({"hdr": hdr(nv=2, ne=1, nf=1), "chunks": [vert(0, 2), topo(1, 0, 1, 2, 0, []), topo(2, 0, 1, 2, 1, [0, 1]), eof()]})
    cases.add("corpus:henc_none_edges", g, check=1, expect="reject")
    g2 = S({"hdr": hdr(nv=2, ne=1, nf=1, nc=1, topo=1), "chunks": [vert(0, 2), topo(1, 0, 1, 2, 1, [0, 1]), topo(2, 0, 1, 3, 0, []), topo(3, 0, 1, 4, 1, [0, 1, 0, 1]), eof()]})
    cases.add("corpus:henc_none_faces_tetmesh", g2, mesh="tet", expect="reject")
    v1 = S({"hdr": hdr(nv=1), "chunks": [vert(0, 1, one), eof()]})
    for k in (64, 80, 88, 104, 119): cases.add("corpus:stream_fault_v1@%d" % k, v1, fault="read@%d" % k, expect="reject")
    # batch 2
    cases.add("corpus:eof_not_last", S({"hdr": hdr(nv=1), "chunks": [eof(), vert(0, 1)]}), expect="reject")
    cases.add("corpus:optional_chunk_after_eof", S({"hdr": hdr(), "chunks": [eof()]}) + b"\0" * 16, expect="reject")
    cases.add("corpus:compression_nonzero", S({"hdr": hdr(), "chunks": [ch({"type": b"EOF ", "body": b"", "compression": 9})]}), expect="reject")
    cases.add("corpus:vertices_not_covered", S({"hdr": hdr(nv=2), "chunks": [vert(0, 1), eof()]}), expect="reject")
    cases.add("corpus:vert_chunk_dropped", S({"hdr": hdr(nv=2), "chunks": [eof()]}), expect="reject")
    tb = cases.add("corpus:tet_fixed_base", S({"hdr": hdr(nv=3, ne=3, nf=1, topo=1), "chunks": [vert(0, 3), topo(1, 0, 3, 2, 1, [0, 1, 1, 2, 2, 0]), topo(2, 0, 1, 3, 1, [0, 2, 4]), eof()]}))
    vt = ch({"type": b"TOPO", "first": 0, "count": 1, "entity": 2, "valence": 0, "venc": 1, "henc": 1, "offset": 0, "valences": [3], "handles": [0, 2, 4]})
    cases.add("corpus:tet_variable_valence", S({"hdr": hdr(nv=3, ne=3, nf=1, topo=1), "chunks": [vert(0, 3), topo(1, 0, 3, 2, 1, [0, 1, 1, 2, 2, 0]), vt, eof()]}), expect="same", base=tb)
    # D6: split edge chunks / handle_offset on edges must read the right mesh (checked against the unsplit file)
    base = cases.add("corpus:D6_base", S({"hdr": hdr(nv=4, ne=2), "chunks": [vert(0, 4), topo(1, 0, 2, 2, 1, [1, 2, 2, 3]), eof()]}))
    cases.add("corpus:D6_split", S({"hdr": hdr(nv=4, ne=2), "chunks": [vert(0, 4), topo(1, 0, 1, 2, 1, [1, 2]), topo(1, 1, 1, 2, 1, [2, 3]), eof()]}), expect="same", base=base)
    cases.add("corpus:D6_offset", S({"hdr": hdr(nv=4, ne=2), "chunks": [vert(0, 4), topo(1, 0, 2, 2, 1, [0, 1, 1, 2], offset=1), eof()]}), expect="same", base=base)
    # batch 3 (found by the round-trip proofs, IO/Ovmb2*.v):
    #   * the re-ordering path of HexahedralMeshTopologyKernel::add_cell (hex class, topology check on) - the lock step had never
    #     reached it and the reader model lacked the two checks the library performs after it (every slot is_valid(), second
    #     check_halfface_ordering): every permutation of a cube's halffaces, cubes with a flipped / doubled / foreign side, and the
    #     witness whose re-ordering leaves an invalid slot (must be refused)
    #   * VERT / TOPO sizes computed in 32 bits (cc44d4f): declared counts at the old limit are exercised by the field mutations
    #     (bset: 178956971, 2^30); the 4 GB file itself is replayed by build/ovmb2/big/big_vert.cc, not here
    from kgen import Rng
    hx_rng = Rng(20260929)
    for (lab, data, rej) in iogen.hex_order_files(hx_rng):
        cases.add("corpus:hexorder:" + lab, data, mesh="hex", check=1, bu=hx_rng.below(2), expect="reject" if rej else None)
        if rej or hx_rng.chance(1, 12):
            cases.add("corpus:hexorder:" + lab, data, mesh="hex", check=0, bu=1)
            cases.add("corpus:hexorder:" + lab, data, mesh="poly", check=1, bu=0)
    #   * the tetrahedral class with the topology check (fix 50db8ef, checked tet add_cell requires four distinct vertices): two
    #     pillows must be refused, a proper tet accepted; the same files with the check off
    for (lab, data, rej) in iogen.tet_cell_files(hx_rng):
        cases.add("corpus:tetcell:" + lab, data, mesh="tet", check=1, bu=1, expect="reject" if rej else None)
        cases.add("corpus:tetcell:" + lab, data, mesh="tet", check=0, bu=1)

def optional_ascii(ctx, pid):
    if os.environ.get("VERIF_OVMB_ONLY"): return      # development aid: binary half only
    try:
        import checks_ascii
    except ImportError:
        return
    fn = getattr(checks_ascii, "ascii_part_" + pid, None) or getattr(checks_ascii, "ascii_part", None)
    if fn: fn(ctx)

# ------------------------------------------------------------------------------------------------ shared generation

def base_files(ctx, rng, thorough):
    """(desc, bytes, ast) of generated meshes in the writer's layout (python-side encoder of gen/iogen.py)"""
    import iogen
    ms = iogen.base_meshes(rng, thorough) + iogen.with_props(rng, thorough)
    out = []
    for d in ms:
        ast = iogen.file_ast(d)
        out.append((d, iogen.serialize(ast), ast))
    return out

def small_files(files, limit):
    return [(d, b, a) for (d, b, a) in files if len(b) <= limit]

# ------------------------------------------------------------------------------------------------ C18

def check_C18(ctx):
    import iogen
    from kgen import Rng
    init_ctx(ctx)
    regen(ctx)
    fw.coq_prove(ctx, "Props/Properties_C18.v")
    impl, model = tools(ctx)
    rng = Rng(ctx.seed * 1000003 + 18)
    quick = ctx.quick()
    files = base_files(ctx, rng, not quick)
    cases = Cases()
    corpus_cases(cases)
    by = {d.name: (d, b, a) for (d, b, a) in files}
    # (1) EVERY truncation length of a few small files, in several reader configurations
    trunc = ["empty", "verts3", "tri", "tet1", "props_names"] if quick else ["empty", "verts3", "edges", "tri", "tet1", "tet1_tetmesh", "hex1_hexmesh", "pyr_tet", "props_names", "props_bools", "props0", "bools_nv9"]
    for nm in trunc:
        d, b, a = by[nm]
        for n in range(len(b)):
            o = opt_matrix(rng, d.file_topo())
            cases.add("prefix:%s:%d/%d" % (nm, n, len(b)), b[:n], expect="reject", **o)
            note_distinct(ctx, b[:n])
    # every chunk boundary of every file
    for (d, b, a) in files:
        if len(b) > 20000 and quick: continue
        pos = 48
        for c in a["chunks"]:
            o = opt_matrix(rng, d.file_topo())
            cases.add("prefix:%s:chunk@%d/%d" % (d.name, pos, len(b)), b[:pos], expect="reject", **o)
            pos += len(iogen.chunk_bytes(c))
    # (2) framing: every header / chunk-header / sub-header numeric field x boundary values
    fm_files = ["tet1", "pyr_tet", "props_names", "val300", "hex1_hexmesh", "props0"] if quick else [d.name for (d, b, a) in small_files(files, 3000)]
    budget = 700 if quick else 6000
    for nm in fm_files:
        d, b, a = by[nm]
        for (lab, data, exp) in iogen.field_mutations(a, rng, budget):
            o = opt_matrix(rng, d.file_topo())
            cases.add("field:%s:%s" % (nm, lab), data, expect="reject" if exp else None, **o)
            note_distinct(ctx, data)
    # (3) chunk drop / duplicate / reorder
    for (d, b, a) in (files if not quick else small_files(files, 3000)):
        for (lab, data, exp) in iogen.chunk_mutations(rng, a):
            o = opt_matrix(rng, d.file_topo())
            lab2 = lab
            m = re.match(r"drop(\d+)$", lab)
            if m: lab2 = lab + a["chunks"][int(m.group(1))]["type"].decode("latin1").strip()
            cases.add("chunk:%s:%s" % (d.name, lab2), data, expect="reject" if exp else None, **o)
            note_distinct(ctx, data)
    # (4) read-side stream failures: the stream reports the full length but delivers only k bytes
    for nm in (["tet1", "props_names", "verts3"] if quick else trunc):
        d, b, a = by[nm]
        ks = range(len(b)) if len(b) < 700 else sorted({rng.below(len(b)) for _ in range(300)})
        for k in ks:
            o = opt_matrix(rng, d.file_topo())
            cases.add("fault:%s:read@%d/%d" % (nm, k, len(b)), b, fault="read@%d" % k, expect="reject", **o)
    compare_read(ctx, "read", cases, impl, model)
    # (5) write-side stream failures: ovmb_write on a stream that accepts only k bytes
    write_faults(ctx, impl, model, [by[n][0] for n in (["tet1", "props_names"] if quick else ["empty", "tet1", "props_names", "pyr_tet", "props0"])], rng, quick)
    finish_ctx(ctx, "OVMB files of generated meshes (gen/iogen.py, one SplitMix64 state; python-side encoder in the writer's layout), then: every "
               "truncation length of small files and every chunk-boundary prefix of all files; every header/chunk-header/sub-header field x a "
               "boundary-value set; chunk drop/duplicate/reorder; a stream that fails after k bytes for every k (read side) / write side. "
               "Each case is read by the real reader (ASan+UBSan, fork per case) and by the extracted decode_impl; result enum, reader state "
               "and the full canonical mesh are compared.  evaluations = cases compared; distinct_nontrivial = distinct byte strings "
               "(sha256) among truncations and mutations, i.e. inputs that are not the unmodified writer output")
    ctx.cov["samples"] += [{"case": c["label"], "bytes": len(c["data"])} for c in list(cases.items.values())[25:29]]
    ctx.cov["samples"] += [{"theorem": t} for t in fw.theorem_statements("Props/Properties_C18.v", 4)]
    ctx.assumptions += ["the stream failure model: the stream reports its full length to seekg/tellg and then delivers only the first k bytes (harness/faultstream.hh)",
                        "files whose header declares more than 2^22 entities are not run through the model (allocation): they run in the unsanitized build under ulimit -v; accepted outcomes are an error result, a std::exception (OtherError) or Ok with a mesh that passes the C++ mesh_valid oracle",
                        "C18_prefix assumes that encode m is a byte string shorter than 2^62 (`small`); C18_encode_small / C18_prefix' derive it from wf_file and explicit bounds on the mesh (`bounded`); the driver also evaluates small on every mesh observed from the real writer (small=1) and C06 reports a broken tie otherwise"]

def write_faults(ctx, impl, model, descs, rng, quick):
    import iogen
    if not impl: return
    text = []
    meta = {}
    for d in descs:
        full = iogen.serialize(iogen.file_ast(d))
        ks = sorted(set(list(range(0, len(full) + 1, 1 if len(full) < 400 and not quick else 7)) + [0, 1, 47, 48, 63, 64, len(full) - 1, len(full)]))
        for k in ks:
            if k < 0: continue
            cid = "wf_%s_%d" % (d.name, k)
            text.append(iogen.write_case_text(d, cid, fault="write@%d" % k))
            meta[cid] = (d, k, len(full))
    path = write_cases(ctx, "writefault", "".join(text))
    ib, rc, err = run_file(ctx, impl, path)
    enc_text = []
    for cid, (d, k, n) in meta.items():
        il = ib.get(cid, [])
        if not il or il[0].startswith("!!"):
            ctx.violations.append({"kind": "input", "oracle": "no_crash_no_hang", "what": "ovmb_write crashed with a failing stream", "case": cid}); continue
        wres = il[0].split("=")[1]
        ctx.stats["w" + wres] += 1
        if k < n and wres == "Ok":
            ctx.violations.append({"kind": "input", "oracle": "write_failure_reported", "case": cid,
                                   "what": "ovmb_write returned Ok although the stream accepted only %d of %d bytes" % (k, n),
                                   "script": iogen.write_case_text(d, cid, fault="write@%d" % k)})
        enc_text.append(encode_case(cid, il, d.mesh, accepts=str(k)))
    if model:
        p2 = write_cases(ctx, "writefault-enc", "".join(enc_text))
        mb, rc, err = run_file(ctx, model, p2)
        nd = 0
        for cid in meta:
            il, ml = ib.get(cid, []), mb.get(cid, [])
            a = [l for l in il if l.startswith("wresult=") or l.startswith("bytes ")]
            b = [l for l in ml if l.startswith("wresult=") or l.startswith("bytes ")]
            ctx.cov["evaluations"] += 1
            if a != b:
                nd += 1
                if nd <= 2: ctx.broken.append({"kind": "correspondence", "name": "write_result vs ovmb_write on a failing stream", "detail": {"case": cid, "impl_says": [x[:200] for x in a], "model_says": [x[:200] for x in b]}})

def encode_case(cid, impl_lines, mesh, accepts="inf"):
    """the harness's observed block -> an `encode` case for the model driver"""
    topo = "poly"; pending = 0
    body = []
    for l in impl_lines:
        if l.startswith("topo="): topo = l[5:]
        elif l.startswith("pending="): pending = int(l[8:])
        elif l.split(" ")[0] in ("nv", "E", "F", "C", "POS", "W"): body.append(l)
    return "case %s mode=encode mesh=%s topo=%s pending=%d accepts=%s\n%s\nend\n" % (cid, mesh, topo, pending, accepts, "\n".join(body))

# ------------------------------------------------------------------------------------------------ C07

def check_C07(ctx):
    import iogen
    from kgen import Rng
    init_ctx(ctx)
    regen(ctx)
    fw.coq_prove(ctx, "Props/Properties_C07.v")
    impl, model = tools(ctx)
    rng = Rng(ctx.seed * 1000003 + 7)
    quick = ctx.quick()
    files = base_files(ctx, rng, not quick)
    cases = Cases()
    corpus_cases(cases)
    pool = small_files(files, 3000 if quick else 200000)
    # field-aware mutation of every small file (sampled per file), all reader configurations
    per = 160 if quick else 1500
    for (d, b, a) in pool:
        for (lab, data, exp) in iogen.field_mutations(a, rng, per):
            o = opt_matrix(rng, d.file_topo())
            cases.add("field:%s:%s" % (d.name, lab), data, **o); note_distinct(ctx, data)
        for (lab, data, exp) in iogen.chunk_mutations(rng, a):
            o = opt_matrix(rng, d.file_topo())
            cases.add("chunk:%s:%s" % (d.name, lab), data, **o); note_distinct(ctx, data)
        for (lab, data) in iogen.noise(rng, b, 25 if quick else 300):
            o = opt_matrix(rng, d.file_topo())
            cases.add("noise:%s:%s" % (d.name, lab), data, **o); note_distinct(ctx, data)
        # mutations of permitted re-encodings (variable valence, split spans, offsets ...)
        for (lab, data, opt) in iogen.reencodings(rng, d):
            for (l2, dat2) in iogen.noise(rng, data, 3 if quick else 20):
                o = opt_matrix(rng, d.file_topo())
                cases.add("renoise:%s:%s:%s" % (d.name, lab, l2), dat2, **o); note_distinct(ctx, dat2)
    # topology-check paths: geometrically valid files read with check on into each compatible class, path API for a subset
    for (d, b, a) in files:
        if len(b) > 20000 and quick: continue
        for mesh in {"poly": ["poly"], "tet": ["tet", "poly"], "hex": ["hex", "poly"]}[d.file_topo()]:
            for check in (0, 1):
                cases.add("valid:%s" % d.name, b, mesh=mesh, check=check, bu=1, api="path" if rng.chance(1, 4) else "stream")
    # arbitrary bytes
    for i in range(60 if quick else 2000):
        n = rng.pick([0, 1, 16, 47, 48, 49, 64, 100, 200])
        data = bytes(rng.below(256) for _ in range(n))
        if rng.chance(1, 2): data = iogen.MAGIC + bytes([1, 1, 3, rng.below(3), 0, 0, 0, 0]) + data
        cases.add("random:%d" % i, data, **opt_matrix(rng, "poly")); note_distinct(ctx, data)
    compare_read(ctx, "read", cases, impl, model)
    finish_ctx(ctx, "field-aware mutation (every header/chunk/sub-header field x boundary values, sampled per file), chunk drop/dup/reorder, byte "
               "noise (flip/set/delete/insert), mutated re-encodings and random bytes, over the writer-layout files of all generated meshes "
               "(incl. all 30 property types on all 7 entity kinds); three mesh classes, topology_check on/off, incidences on/off, stream and "
               "path API.  Every case runs in the real reader under ASan+UBSan+_GLIBCXX_ASSERTIONS in a forked child with a 2 s alarm "
               "(crash/abort/timeout = violation), every Ok result passes the C++ mesh_valid oracle, and result enum + reader state + full mesh "
               "are compared with the extracted decode_impl.  distinct_nontrivial = distinct mutated byte strings (sha256)")
    ctx.cov["samples"] += [{"case": c["label"], "bytes": len(c["data"])} for c in list(cases.items.values())[30:34]]
    ctx.cov["samples"] += [{"theorem": t} for t in fw.theorem_statements("Props/Properties_C07.v", 4)]
    ctx.assumptions += ["memory safety of the C++ object graph itself is observed by the sanitizers on the generated inputs, not proved; the theorems prove the index/length discipline of the model",
                        "files declaring more than 2^22 entities are not run through the model (allocation): unsanitized build under ulimit -v; accepted outcomes: error result, std::exception (OtherError), or Ok with a mesh passing the C++ mesh_valid oracle",
                        "C07_valid (stored handles in range) is proved for header counts below 2^30 and EVERY configuration (the hexahedral re-ordering path rests on the is_valid() / second check_halfface_ordering of HexahedralMeshTopologyKernel::add_cell, modelled in mesh_add_cell); the C++ mesh_valid oracle checks the same on the generated inputs",
                        "entity counts below 2^30 (every half-entity handle representable as int)"]
    optional_ascii(ctx, "C07")

# ------------------------------------------------------------------------------------------------ C06

def check_C06(ctx):
    import iogen, copy
    from kgen import Rng
    init_ctx(ctx)
    regen(ctx)
    fw.coq_prove(ctx, "Props/Properties_C06.v")
    import checks
    checks.also_prove_file(ctx, "Props/Properties_C06_roundtrip.v")      # the round trip for all meshes (IO/Ovmb2*.v)
    impl, model = tools(ctx)
    rng = Rng(ctx.seed * 1000003 + 6)
    quick = ctx.quick()
    ms = iogen.base_meshes(rng, not quick) + iogen.with_props(rng, not quick)
    # extra meshes for the writer side: all-zero valence (expected finding), pending deletions, explicit topology options
    extra = []
    # (faces of valence 0 are outside the kernel's contract: FaceHalfEdgeIter reads halfedges()[0]; cells of valence 0 are not)
    d = iogen.Desc("allzero_valence_cells"); b = iogen.Builder(d); v = b.v(3); b.hf((v[0], v[1], v[2])); d.C += [[], []]; extra.append(d)
    d = iogen.Desc("somezero_valence_cells"); b = iogen.Builder(d); v = b.v(3); b.hf((v[0], v[1], v[2])); d.C += [[], [0], []]; extra.append(d)
    for nm, line in (("pending_cell", "@DelC 0"), ("pending_vertex", "@DelV 0"), ("pending_face", "@DelF 1")):
        d = copy.deepcopy([m for m in ms if m.name == "tet2"][0]); d.name = nm; d.extra_k.append(line); extra.append(d)
    d = copy.deepcopy([m for m in ms if m.name == "tet2"][0]); d.name = "gc_done"; d.extra_k += ["@DelC 0", "GC"]; extra.append(d)
    d = copy.deepcopy([m for m in ms if m.name == "tet1"][0]); d.name = "tet_as_poly"; d.topo = "poly"; extra.append(d)
    # corpus F1 (fixed b526d1c): persistent std::string properties whose default is the EMPTY string - the writer indexed one past the
    # end of its (empty) default buffer; on every entity kind, with empty and non-empty values
    d = iogen.Desc("emptystr_default"); b = iogen.Builder(d); v = b.v(4); b.tet(*v)
    for kind in ("V", "E", "HE", "F", "HF", "C", "M"):
        n = d.count(kind)
        d.props.append((kind, "s32", ("es_" + kind).encode(), b"", [b"" if i % 2 else b"x%d" % i for i in range(n)]))
    extra.append(d)
    d = copy.deepcopy([m for m in ms if m.name == "hex1"][0]); d.name = "hex_as_poly"; d.topo = "poly"; extra.append(d)
    # (i) byte-exact writer tie: ovmb_write(real mesh) == encode(observe mesh); write -> read -> compare on the implementation
    if impl:
        text = "".join(iogen.write_case_text(d, "w_" + d.name) for d in ms + extra)
        path = write_cases(ctx, "write", text)
        ib, rc, err = run_file(ctx, impl, path)
        enc = []
        for d in ms + extra:
            cid = "w_" + d.name
            il = ib.get(cid, [])
            if not il or il[0].startswith("!!"):
                lab = d.name + (":emptystr_default" if any(t == "s32" and df == b"" for (k, t, n, df, vals) in d.props) else "")
                kn = known("C06", "no_crash_no_hang", lab)
                if kn: ctx.known_hits[kn] += 1
                else: ctx.violations.append({"kind": "input", "oracle": "no_crash_no_hang", "what": "ovmb_write crashed", "case": cid, "script": iogen.write_case_text(d, cid)})
                continue
            for l in il:
                if l.startswith("!O"):
                    k = known("C06", l.split()[1], d.name)
                    if k: ctx.known_hits[k] += 1
                    else: ctx.violations.append({"kind": "input", "oracle": l.split()[1], "what": l, "case": cid, "script": iogen.write_case_text(d, cid)})
            pend = any(l == "pending=1" for l in il)
            wres = il[0].split("=")[1]
            ctx.stats["w" + wres] += 1
            if pend and wres == "Ok":
                ctx.violations.append({"kind": "input", "oracle": "pending_refused", "what": "a mesh with pending deletions was written with result Ok", "case": cid, "script": iogen.write_case_text(d, cid)})
            if d.name.startswith("pending") and not pend:
                ctx.notes.append("generator: %s has no pending deletion" % d.name)
            enc.append(encode_case(cid, il, d.mesh))
            note_distinct(ctx, "\n".join(il).encode())
        if model:
            p2 = write_cases(ctx, "encode", "".join(enc))
            mb, rc, err = run_file(ctx, model, p2)
            nd = 0
            for d in ms + extra:
                cid = "w_" + d.name
                il, ml = ib.get(cid, []), mb.get(cid, [])
                if not il or not ml: continue
                ctx.cov["evaluations"] += 1
                a = [l for l in il if l.startswith("wresult=") or l.startswith("bytes ")]
                b = [l for l in ml if l.startswith("wresult=") or l.startswith("bytes ")]
                itopo = next((l[5:] for l in il if l.startswith("topo=")), "?")
                mtopo = next((l[7:] for l in ml if l.startswith("detect=")), "?")
                if a != b or (d.topo == "auto" and itopo != mtopo):
                    nd += 1
                    if nd <= 3:
                        ctx.broken.append({"kind": "correspondence", "name": "encode vs BinaryFileWriter (byte-exact)",
                                           "detail": {"case": cid, "impl_topo": itopo, "model_topo": mtopo, "impl_says": [x[:300] for x in a], "model_says": [x[:300] for x in b],
                                                      "script": iogen.write_case_text(d, cid)[:3000]}})
                # model-side round trips on the real writer's observation (decode_impl (encode m) = m, decode_spec (encode m) = m)
                wf = any(l == "wf=1" for l in ml)
                if wf and not any(l == "small=1" for l in ml):
                    ctx.broken.append({"kind": "correspondence", "name": "encode of a well-formed observed mesh is not a byte string (hypothesis of C18_prefix)", "detail": {"case": cid}})
                for l in ml:
                    if (l.startswith("model_rt=") or l.startswith("spec_rt=")) and not l.endswith("=ok") and not l.endswith("=skipped") and wf:
                        ctx.broken.append({"kind": "correspondence", "name": "model round trip on an observed mesh (%s)" % l, "detail": {"case": cid}})
            ctx.log("write tie: %d meshes, %d differ" % (len(ms + extra), nd))
    # (ii) reader tie on writer-layout files + permitted re-encodings read to the same mesh
    cases = Cases()
    corpus_cases(cases)
    for d in ms:
        b = iogen.serialize(iogen.file_ast(d))
        if len(b) > 20000 and quick: continue
        topo = d.file_topo()
        confs = [(m, c, bu) for m in {"poly": ["poly"], "tet": ["poly", "tet"], "hex": ["poly", "hex"]}[topo] for c in (0, 1) for bu in (0, 1)]
        base = None
        for (m, c, bu) in confs:
            degenerate = d.name in ("degenerate", "digons", "edges") or d.name.startswith(("ne", "nf", "val"))
            if c == 1 and degenerate: continue
            cid = cases.add("base:%s" % d.name, b, mesh=m, check=c, bu=bu, api="path" if (c, bu) == (1, 1) else "stream",
                            spec=1 if (m, c, bu) == (confs[0][0], 0, 0) and len(b) <= 20000 else 0)
            if (m, c, bu) == (confs[0][0], 0, 0): base = cid
        if len(b) > (6000 if quick else 20000): continue
        for (lab, data, opt) in iogen.reencodings(rng, d):
            for (m, c) in ((confs[0][0], 0), (confs[-1][0], 0)):
                cases.add("reenc:%s:%s" % (d.name, lab), data, mesh=m, check=c, bu=rng.below(2), expect="same", base=base, spec=1 if m == confs[0][0] else 0)
            note_distinct(ctx, data)
    compare_read(ctx, "read", cases, impl, model)
    finish_ctx(ctx, "meshes from gen/iogen.py (empty, vertices only, no cells, tets, hexes, mixed and degenerate valences, counts around 255/256 "
               "(65535/65536 in thorough), faces of valence 255/256/300, all 30 OVMB property types on all 7 entity kinds, special names) are built "
               "in the real library from kernel scripts; ovmb_write's bytes are compared byte for byte with encode(observed mesh); the "
               "writer's output and ~15 permitted re-encodings per mesh (split spans, wider ints, float positions, handle offsets incl. "
               "uint64 wrap, variable valence, optional chunks, late DIRP) are read by the real reader (3 mesh classes, check on/off, "
               "incidences on/off, stream/path) and by decode_impl and decode_spec.  distinct_nontrivial = distinct observed meshes + "
               "distinct re-encoded byte strings")
    ctx.cov["samples"] += [{"case": c["label"], "bytes": len(c["data"])} for c in list(cases.items.values())[30:34]]
    ctx.cov["samples"] += [{"theorem": t} for t in fw.theorem_statements("Props/Properties_C06.v", 4)]
    ctx.assumptions += ["binary (OVMB) half only unless lib/checks_ascii.py is present",
                        "C06_roundtrip / C06_spec_roundtrip / C06_reencodings (Props/Properties_C06_roundtrip.v) hold for every mesh value with wf_file (the writer's contract), `accepts` (reader configuration compatible with the file's topology type; the kernel's add_face/add_cell store faces and cells as given) and `fits` (fewer than 2^32 properties and serialized defaults below 2^32 bytes - uint32_t fields of the writer - and every chunk payload below 2^62 bytes); no reader-side size limit is left",
                        "property order inside one entity kind is the order of a std::set of pointers in the writer: the observed order is what encode is given",
                        "entity counts below 2^30"]
    optional_ascii(ctx, "C06")
