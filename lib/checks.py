"""One function per property.  Each: (1) regenerate leaves + check the Coq obligations, (2) rebuild the
harness from /repo and run the correspondence, (3) impl-side oracle search, (4) fill ctx."""
import json, os, random, subprocess
import fw, kernel_engine as ke

def replay_scripts(ctx):
    """--replay <file>: extra script(s) to run first (a replay JSON written by an earlier run)"""
    if not getattr(ctx, "replay", None): return []
    try:
        rec = json.load(open(ctx.replay))
    except Exception:
        return []
    lines = rec.get("script") or (rec.get("broken") or [{}])[0].get("detail", {}).get("script_lines")
    if not lines: return []
    p = os.path.join(fw.BUILD, "run", "%s-replay.scripts" % ctx.id)
    os.makedirs(os.path.dirname(p), exist_ok=True)
    ke.write_scripts(p, {"replay": lines})
    return [p]

# ------------------------------------------------------------------------------------ leaf differential

LEAF_FUNS_1 = ["HEH_subidx", "HEH_full", "HEH_opp", "HFH_subidx", "HFH_full", "HFH_opp", "Handle_is_valid",
               "TK_edge_handle", "TK_face_handle", "TK_opposite_halfedge_handle", "TK_opposite_halfface_handle"]
LEAF_FUNS_2 = ["EH_half", "FH_half", "TK_halfedge_handle", "TK_halfface_handle",
               "VCorr_correctValue", "HECorr_correctValue", "HFCorr_correctValue", "CCorr_correctValue"]

def leaf_differential(ctx, n_random):
    impl = fw.build_harness(ctx, "san", "run_leaf")
    try:
        model = fw.build_driver(ctx, "Extract/ExtractLeaf.v", "ldriver.ml", "ldriver")
    except RuntimeError as ex:
        ctx.broken.append({"kind": "model-build", "name": "Extract/ExtractLeaf.v", "detail": str(ex)[-2000:]})
        return
    if impl is None: return
    rnd = random.Random(ctx.seed)
    big = (1 << 30) - 1
    vals = [0, 1, 2, 3, 4, 5, 6, 7, 254, 255, 256, 257, 65534, 65535, 65536, big - 1, big, big // 2, big // 2 + 1]
    vals += [rnd.randrange(0, big) for _ in range(n_random)]
    lines = []
    for f in LEAF_FUNS_1:
        for v in vals + ([-1] if f == "Handle_is_valid" else []) + ([2 * big, 2 * big + 1] if "half" not in f and f != "Handle_is_valid" else []):
            lines.append("%s %d" % (f, v))
    for f in LEAF_FUNS_2:
        for v in vals:
            if "Corr" in f:
                for t in (0, 1, v - 1 if v > 0 else 0, v, v + 1, rnd.randrange(0, big)):
                    lines.append("%s %d %d" % (f, t, v))
            else:
                for s in (0, 1):
                    lines.append("%s %d %d" % (f, v, s))
    inp = "\n".join(lines) + "\n"
    env = {"ASAN_OPTIONS": "detect_leaks=0", "UBSAN_OPTIONS": "halt_on_error=1"}
    rc1, o1, e1 = fw.sh([impl], input=inp, timeout=300, env=env)
    rc2, o2, e2 = fw.sh([model], input=inp, timeout=300)
    a, b = o1.strip().split("\n"), o2.strip().split("\n")
    nd = 0
    for i, ln in enumerate(lines):
        x = a[i] if i < len(a) else "<missing: rc=%d %s>" % (rc1, e1[-300:])
        y = b[i] if i < len(b) else "<missing>"
        if x != y:
            nd += 1
            if nd <= 3:
                ctx.broken.append({"kind": "correspondence", "name": "leaf differential Gen/Handles.v vs compiled Handles.hh",
                                   "detail": {"input": ln, "impl_says": x, "model_says": y}})
    ctx.cov["evaluations"] += len(lines)
    ctx.cov["leaf_evaluations"] = len(lines)
    ctx.cov["samples"].append({"leaf_inputs": lines[:3] + lines[-3:]})
    return impl

# ------------------------------------------------------------------------------------ C08

def check_C08(ctx):
    fw.regen_leaves(ctx, ["handles"])
    fw.coq_prove(ctx, "Props/Properties_C08.v")
    impl_leaf = leaf_differential(ctx, 200 if ctx.quick() else 20000)
    # impl-side oracle: the conversion algebra on (a stride of / every) representable index
    if impl_leaf:
        stride = 4099 if ctx.quick() else 1
        rc, out, err = fw.sh([impl_leaf, "--sweep", str(stride)], timeout=3000,
                             env={"ASAN_OPTIONS": "detect_leaks=0", "UBSAN_OPTIONS": "halt_on_error=1"})
        bad = [l for l in out.split("\n") if l.startswith("!O C08")]
        ctx.cov["handle_sweep"] = out.strip().split("\n")[-1] + " stride=%d" % stride
        if bad or rc != 0:
            ctx.violations.append({"kind": "input", "oracle": "C08", "what": (bad[0] if bad else "sweep crashed: " + err[-500:]),
                                   "replay_cmd": "build/bin/san/run_leaf --sweep %d" % stride})
    ke.standard_kernel_check(ctx, "C08", ["valid", "setops", "malformed"], {"AddFV", "AddF", "SetF", "SetE", "SwapE", "SwapV", "DelE", "DelV", "GC"},
                             "C08", count_quick=60, count_thorough=1200, extra_files=replay_scripts(ctx))
    ctx.cov["rule"] = ("kernel scripts from gen/kgen.py (profiles valid/setops/malformed, one SplitMix64 state per script) run in lock step "
                       "on the extracted model and the real library, full canonical state compared after every operation, plus the "
                       "per-step mirror oracle (halfedge/halfface of opposite handles, closedness of faces built from vertices or accepted "
                       "with topology check); plus a leaf differential of the regenerated Handles.hh functions on boundary/random indices. "
                       "distinct_nontrivial = distinct scripts (by text hash) that executed with Ok at least one edge/face-changing or renumbering "
                       "operation on a mesh that already has a cell")
    ctx.cov["samples"] += [{"theorem": t} for t in fw.theorem_statements("Props/Properties_C08.v", 4)]
    also_prove_file(ctx, "Props/Properties_C01_all.v", samples=0)      # C08_faces_stay_closed_along_all_histories
    ctx.assumptions += ["handles below 2^30 (so that 2i+1 is representable as int), as the library assumes silently",
                        "closedness is proved for the model's add_face check and mirrored side, and that faces stay closed through every later renumbering "
                        "along every history of C01's class (C08_faces_stay_closed_along_all_histories)"]

# ------------------------------------------------------------------------------------ kernel family helper

KERNEL_RULE = ("kernel scripts from gen/kgen.py (profiles %s; one SplitMix64 state per script, seeded from VERIF_SEED; meshes built from "
               "tet/hex fans, strips, blocks, debris; operations aimed at first/last/neighbour-of-last victims, shared sub-entities, every "
               "deferred x fast x bottom-up-subset cell) plus the corpus of minimised scripts of fixed defects, run in lock step on the "
               "extracted Gallina model and the library rebuilt from /repo: the full canonical state (definitions, flags, counters, mode flags, "
               "the three incidence caches WITH order, every property array, return value) is compared after every operation; the impl-side "
               "oracle %s runs after every step on the real library. distinct_nontrivial = distinct scripts (by text hash) that executed with Ok "
               "at least one of the operations {%s} on a mesh that already has a cell")

def kernel_property(ctx, pid, prop_v, profiles, relevant_ops, count_quick=60, count_thorough=1500, assumptions=()):
    fw.regen_leaves(ctx, ["handles"])
    fw.coq_prove(ctx, prop_v)
    ctx.kernel_run = ke.standard_kernel_check(ctx, pid, profiles, relevant_ops, pid, count_quick=count_quick, count_thorough=count_thorough,
                                              extra_files=replay_scripts(ctx))
    ctx.cov["rule"] = KERNEL_RULE % ("/".join(profiles), pid, ", ".join(sorted(relevant_ops)))
    ctx.cov["samples"] += [{"theorem": t} for t in fw.theorem_statements(prop_v, 4)]
    ctx.assumptions += list(assumptions)

def check_C11(ctx):
    kernel_property(ctx, "C11", "Props/Properties_C11.v", ["malformed", "valid", "setops"], {"AddE", "AddF", "AddFV", "AddC"},
                    assumptions=["the add_edge search through the outgoing-halfedge cache is proved under exactness of that cache at the vertex "
                                 "(C01's invariant); 'valid arguments' = live handles",
                                 "tetrahedral / hexahedral valence guards are covered under C15 / C16"])

def check_C03(ctx):
    kernel_property(ctx, "C03", "Props/Properties_C03.v", ["valid", "swaps", "recycle", "setops"],
                    {"DelV", "DelE", "DelF", "DelC", "SwapV", "SwapE", "SwapF", "SwapC", "GC", "Clear", "AddV", "AddVs", "AddE", "AddFV", "AddC", "EnDef"},
                    assumptions=["proved for every reachable state: one element per slot; proved per notification and per swap: the slot permutation; "
                                 "that each delete_*_core applies exactly (optional swap-with-last, then delete-element) to the properties is tied by the "
                                 "lock step on every property array and checked by the token oracle, not yet stated as a theorem",
                                 "the oracle identifies vertices by their position (a harness-side identity token), i.e. it relies on vertex positions following C03 themselves"])
    # the tetrahedral kernel's collapse_edge moves property values itself (swap_property_elements per rebuilt tet): its part lives
    # with the tet/hex component (lock step on every property line + token oracle; known finding collapse-props-parity)
    try:
        import checks_tethex
        checks_tethex.collapse_props_part(ctx)
    except Exception as ex:
        ctx.broken.append({"kind": "correspondence", "name": "collapse_edge property part (lib/checks_tethex.collapse_props_part)", "detail": str(ex)[:1500]})

def check_C17(ctx):
    kernel_property(ctx, "C17", "Props/Properties_C17.v", ["swaps", "recycle", "valid", "recycle"], {"SwapV", "SwapE", "SwapF", "SwapC"},
                    assumptions=["full relabeling and involution are proved for the linear-scan implementation (consulted incidence kinds off) in every reachable state; "
                                 "with incidences on, the exchange of slots/flags/properties is proved in every mode, the relabeling of referring definitions is tied by lock step + oracle; "
                                 "the relabeling of definitions of deferred-DELETED entities is refuted (C17_relabel_of_deleted_definitions_refuted, KNOWN_FINDINGS D13)"])
    # known finding D13: reported (not counted) when its replay still shows the recorded signature
    kf = [f for f in fw.known_findings("C17") if f.get("id") == "D13"]
    if kf and any(of["oracle"] == "C17-deleted-def" and of["script"].startswith("D13") for of in ctx.kernel_run.oracle_fails):
        ctx.known.append("swap_face_indices leaves the stored definition of a deferred-deleted cell unrelabeled (D13; replay corpus/kernel/known-findings.scripts)")
    also_prove_file(ctx, "Props/Properties_C01_all.v", samples=0)      # C17_swaps_keep_the_invariant_with_deletions_pending

def also_prove_file(ctx, vfile, samples=2):
    """a further property file of the same property: obligations and theorems add up"""
    if not os.path.exists(os.path.join(fw.COQ, vfile)):
        ctx.broken.append({"kind": "theorem", "name": vfile, "detail": "property file missing"}); return
    save = (ctx.cov.get("obligations", 0), ctx.cov.get("discharged", 0), list(ctx.theorems), ctx.cov["checker_cmd"])
    fw.coq_prove(ctx, vfile)
    ctx.cov["obligations"] = ctx.cov.get("obligations", 0) + save[0]; ctx.cov["discharged"] = ctx.cov.get("discharged", 0) + save[1]
    ctx.theorems = save[2] + ctx.theorems
    ctx.cov["checker_cmd"] = save[3] + " ; same for " + vfile
    if samples: ctx.cov["samples"] += [{"theorem": t} for t in fw.theorem_statements(vfile, samples)]

def check_C02(ctx):
    kernel_property(ctx, "C02", "Props/Properties_C02.v", ["valid", "axis", "recycle", "setops"], {"DelV", "DelE", "DelF", "DelC", "GC", "EnDef"},
                    assumptions=["cache exactness (vbu_ok/ebu_ok/fbu_ok) and the size invariant are hypotheses of the deferred-mode theorems; the size invariant is proved for every "
                                 "reachable state, cache exactness is evaluated by the sound decision procedures of Kernel/InvB.v on every model state the run visits",
                                 "immediate index-shifting mode: Properties_C02.v; immediate FAST mode, the bijection form, mode independence (fast / shifting / deferred) "
                                 "and the invariant along every immediate-mode history: Properties_C02_fast.v (Kernel3/Fast*.v); the oracle identifies vertices by position tokens"])
    also_prove_file(ctx, "Props/Properties_C02_fast.v")

def check_C12(ctx):
    kernel_property(ctx, "C12", "Props/Properties_C12.v", ["toggles", "axis", "valid", "recycle", "swaps"],
                    {"DelV", "DelE", "DelF", "DelC", "SwapV", "SwapE", "SwapF", "SwapC", "GC", "EnVBU", "EnEBU", "EnFBU", "EnDef", "AddE", "AddFV", "AddC"},
                    assumptions=["'no operation reads a disabled cache out of range' is decided on the real library by ASan/UBSan/_GLIBCXX_ASSERTIONS on every lock-step run "
                                 "(all 8 incidence subsets x 4 deletion modes) and by the twin-mesh oracle, not by a theorem (the model totalises vector reads)",
                                 "edge incidences after re-enabling: exact incl. the re-ordering, and every toggle is an operation of C01's history class (Properties_C01_all.v: C12_*)",
                                 "'the same mesh as with all kinds enabled' along whole histories: proved for the decidable class indep_ops (Properties_C12_history.v: same core and same call results as the "
                                 "history with every toggle removed); refuted in general by parallel edges + duplicate-avoiding lookups (known finding parallel-edge-choice) and by swaps with deletions pending "
                                 "(D13); immediate FAST deletions and FAST collection are outside the proved class and carried by the twin-mesh oracle"])
    also_prove_file(ctx, "Props/Properties_C01_all.v", samples=0)      # holds the C12_reenabled_* theorems
    also_prove_file(ctx, "Props/Properties_C12_history.v")               # first sentence at the history level (Kernel7/Indep*.v): _partial + _refuted (known finding parallel-edge-choice)

def check_C04(ctx):
    os.environ["KGEN_STATUSGC"] = "1"     # the valid/swaps profiles then also call StatusAttrib::garbage_collection
    kernel_property(ctx, "C04", "Props/Properties_C04.v", ["gc", "valid", "recycle", "swaps"], {"GC", "EnDef", "StatusGC"},
                    assumptions=["proved: counters/modes/sizes after collection in every state; 'the logical mesh is unchanged' and handle tracking are tied by lock step "
                                 "(incl. StatusAttrib::garbage_collection with tracking and the manifoldness option) and decided on the real library by the identity-token oracle",
                                 "Properties_C04_gc.v (Kernel3/Gc*.v): collect_garbage yields exactly the logical mesh (rank renumbering; fast mode: a bijection), equals immediate "
                                 "deletion (single and lists of deletions), gc_ready holds after every deferred history, StatusAttrib tracking and the manifoldness pass characterised"])
    also_prove_file(ctx, "Props/Properties_C04_gc.v")

def check_C01(ctx):
    kernel_property(ctx, "C01", "Props/Properties_C01.v", ["valid", "toggles", "recycle", "setops", "swaps"],
                    {"DelV", "DelE", "DelF", "DelC", "SwapV", "SwapE", "SwapF", "SwapC", "GC", "EnVBU", "EnEBU", "EnFBU", "AddE", "AddFV", "AddC", "SetE", "SetF", "SetC"},
                    assumptions=["the invariant (caches exact, lists duplicate-free, live cells closed, counters exact) is PROVED for every state reached by a history of "
                                 "additions, checked add_cell on free halffaces, deletions in all four modes, collect_garbage, mode switches, all incidence toggles incl. "
                                 "re-enabling, swaps (also with deletions pending), clear and property operations (Properties_C01_all.v: C01_invariant_along_all_histories); "
                                 "outside that class - set_edge/set_face/set_cell, unchecked add_cell of cells the check would reject (refuted: known finding "
                                 "nonmanifold-cells-reorder), non-simple faces - it is checked by sound extracted decision procedures on every explored model state, "
                                 "which is compared cache for cache with the library",
                                 "valid histories: live-handle arguments, no halfface in two live cells, no face listing a halfedge twice"])
    # known finding: on cells that are not closed surfaces the re-ordering can corrupt a halfface list; reported when the
    # recorded replay still shows the duplicate
    if any(f.get("id") == "nonmanifold-cells-reorder" for f in fw.known_findings("C01")):
        blk = ctx.kernel_run.corpus_final.get("nonmanifold-cells-reorder", []) if getattr(ctx, "kernel_run", None) else []
        hfs = [l for l in blk if l.startswith("HFS ")]
        if hfs and hfs[0].startswith("HFS [6 2 0 2 4]"):
            ctx.known.append("add_cell on cells that are not closed surfaces leaves the halffaces of halfedge 0 as [6 2 0 2 4] (duplicate 2, halfface 8 lost); replay corpus/kernel/known-findings.scripts#nonmanifold-cells-reorder")
    # further property files of C01: the history invariant (Kernel2/Exact*.v) and the derived queries (iterator component)
    def also_prove(vfile): also_prove_file(ctx, vfile)
    if os.path.exists(os.path.join(fw.COQ, "Props/Properties_C01_history.v")):
        also_prove("Props/Properties_C01_history.v")
    # ONE invariant over ONE history class covering every kernel operation except set_* and unchecked add_cell of non-closed cells
    also_prove("Props/Properties_C01_all.v")
    try:
        import checks_iter
        also_prove("Props/Properties_C01_queries.v")
        qr = checks_iter.run_queries(ctx)
        checks_iter.judge_queries(ctx, qr, oracles=("C01",))
    except ImportError:
        ctx.notes.append("iterator component not present: derived queries not checked")
