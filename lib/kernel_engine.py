"""Lock-step correspondence engine for the topology-kernel family (C01-C04, C08-C12, C17):
extracted model (build/ml/kdriver) vs. the real library (harness/run_kernel.cc built from /repo).
"""
import hashlib, os, re, time
import fw, lockstep

CORPUS = os.path.join(fw.VERIF, "corpus", "kernel")

# state components (first token of a dump line) a property's theorems talk about.  A divergence in
# another component is reported by the properties that own it (DESIGN section 5).
ALL = {"TRK", "result", "nv", "E", "F", "C", "del", "cnt", "flags", "OUT", "HFS", "CELL", "P", "Q", "crash", "missing"}
COMPONENTS = {
    "C01": {"OUT", "HFS", "CELL", "E", "F", "C", "del", "nv", "Q", "crash", "missing", "result"},
    "C02": {"nv", "E", "F", "C", "del", "cnt", "Q", "crash", "missing", "result"},
    "C03": {"P", "nv", "crash", "missing"},
    "C04": {"TRK", "nv", "E", "F", "C", "del", "cnt", "flags", "P", "crash", "missing", "result"},
    "C08": {"E", "F", "Q", "crash", "missing", "result"},
    "C09": {"HFS", "CELL", "Q", "crash", "missing"},
    "C10": {"Q", "crash", "missing"},
    "C11": ALL,
    "C12": {"nv", "E", "F", "C", "del", "cnt", "flags", "P", "OUT", "HFS", "CELL", "crash", "missing", "result"},
    "C17": ALL,
}

INV_PROPS = {"C01", "C02", "C12"}

def script_blocks(path):
    """{name: [lines]} of a .scripts file"""
    out, cur = {}, None
    for ln in open(path):
        ln = ln.rstrip("\n")
        s = ln.strip()
        if not s or s.startswith("%"): continue
        if s.startswith("####"):
            cur = []; out[s[4:].strip()] = cur
        elif cur is not None:
            cur.append(s)
    return out

def write_scripts(path, scripts):
    with open(path, "w") as f:
        for name, lines in scripts.items():
            f.write("#### %s\n" % name)
            for l in lines: f.write(l + "\n")

class KernelRun:
    def __init__(self, ctx, harness="run_kernel", driver=("Extract/Extract.v", "kdriver.ml", "kdriver")):
        self.ctx = ctx
        self.impl = fw.build_harness(ctx, "san", harness)
        try:
            self.model = fw.build_driver(ctx, *driver)
        except RuntimeError as ex:
            ctx.broken.append({"kind": "model-build", "name": driver[0], "detail": str(ex)[-2500:]})
            self.model = None
        self.stats = {"scripts": 0, "steps": 0, "outcomes": {}, "ops": {}}
        self.divs = []
        self.oracle_fails = []
        self.samples = []
        self.seen = set()
        self.nontrivial = set()
        self.modes = {}
        self.relevant_ops = None
        self.inv = {"states": 0, "valid_states": 0, "fails": []}
        self.corpus_final = {}
        os.makedirs(os.path.join(fw.BUILD, "run"), exist_ok=True)

    def ok(self): return self.impl is not None and self.model is not None

    def run_file(self, path, relevant_ops=None, oracle=None):
        """lock-step over one .scripts file; accumulates stats, divergences and oracle failures"""
        args_i = [self.impl] + (["--oracle", oracle] if oracle else [])
        self.relevant_ops = relevant_ops
        menv = None if self.ctx.id in INV_PROPS else {"KDRIVER_NO_INV": "1"}
        divs, st = lockstep.lockstep(args_i, [self.model], path, timeout=3000, model_env=menv)
        self.stats["scripts"] += st["scripts"]; self.stats["steps"] += st["steps"]
        for k, v in st["outcomes"].items(): self.stats["outcomes"][k] = self.stats["outcomes"].get(k, 0) + v
        for k, v in st["ops"].items(): self.stats["ops"][k] = self.stats["ops"].get(k, 0) + v
        self.divs += divs
        inv = st.get("inv", {})
        self.inv["states"] += inv.get("states", 0); self.inv["valid_states"] += inv.get("valid_states", 0)
        for f in inv.get("fails", []):
            f["lines"] = script_blocks(path).get(f["script"], [])[:f["step"]]
            self.inv["fails"].append(f)
        scripts = script_blocks(path)
        if os.path.dirname(path) == CORPUS:
            for name, blocks in lockstep.split_scripts(st["impl_out"]).items():
                if blocks: self.corpus_final[name] = blocks[-1]
        for of in st.get("oracle_fails", []):
            of["lines"] = scripts.get(of["script"], [])[:of["step"]]
            self.oracle_fails.append(of)
        for d in divs:
            d.lines = scripts.get(d.script, [])[:d.step]
        mblocks = lockstep.split_scripts(st["model_out"])
        for name, lines in scripts.items():
            h = hashlib.sha256("\n".join(lines).encode()).hexdigest()
            if h in self.seen: continue
            self.seen.add(h)
            blocks = mblocks.get(name, [])
            has_cell, nontriv = False, False
            mode = None
            for b in blocks:
                head = b[0]
                opn = head.split(" ")[2].lstrip("@") if len(head.split(" ")) > 2 else ""
                okk = "-> Ok" in head
                for l in b[1:]:
                    if l.startswith("C ") and len(l) > 2: has_cell = True
                    if l.startswith("flags "): mode = l
                if okk and has_cell and (relevant_ops is None or opn in relevant_ops):
                    nontriv = True
            if nontriv: self.nontrivial.add(h)
            if mode: self.modes[mode] = self.modes.get(mode, 0) + 1
            if len(self.samples) < 3 and nontriv:
                self.samples.append({"script": name, "ops": lines[:60]})
        return divs, st

    def generate(self, seed, count, profiles, nops, tag):
        import kgen
        out = os.path.join(fw.BUILD, "run", "%s-%s-%d-p%d.scripts" % (self.ctx.id, tag, seed, os.getpid()))
        kgen.generate(self.model, seed, count, profiles, nops, out, prefix=tag)
        return out

    # ---------------------------------------------------------------- shrinking
    def fails(self, lines, pred, oracle=None):
        tmp = os.path.join(fw.BUILD, "run", "%s-shrink-%d.scripts" % (self.ctx.id, os.getpid()))
        write_scripts(tmp, {"shrink": lines})
        args_i = [self.impl] + (["--oracle", oracle] if oracle else [])
        divs, st = lockstep.lockstep(args_i, [self.model], tmp, timeout=120)
        return pred(divs, st)

    def shrink(self, lines, pred, oracle=None, budget_s=60):
        """ddmin over script lines"""
        t0 = time.time()
        n = 2
        cur = list(lines)
        while len(cur) >= 2 and time.time() - t0 < budget_s:
            chunk = max(1, len(cur) // n)
            reduced = False
            for i in range(0, len(cur), chunk):
                cand = cur[:i] + cur[i + chunk:]
                if cand and self.fails(cand, pred, oracle):
                    cur = cand; n = max(n - 1, 2); reduced = True
                    break
                if time.time() - t0 > budget_s: break
            if not reduced:
                if chunk == 1: break
                n = min(len(cur), n * 2)
        return cur

def relevant_divs(pid, divs):
    comps = COMPONENTS.get(pid, ALL)
    out = []
    for d in divs:
        c = d.component.split(" ")[0]
        if c in comps: out.append(d)
    return out

def known_oracle_finding(pid, of):
    """A listed known finding, identified by its signature on the failing history (KNOWN_FINDINGS.json); anything else stays a violation.
    C12 'parallel-edge-choice': the twin-mesh oracle fails AT a duplicate-avoiding edge lookup (add_edge without duplicates, add_face from
    vertices) of a history that created edges with allowDuplicates=true before: which of several parallel edges is 'the existing one'
    depends on whether the vertex incidence cache (list order) or the linear scan (index order) answers."""
    if pid == "C12" and any(f.get("id") == "parallel-edge-choice" for f in fw.known_findings("C12")):
        lines = [l.lstrip("@").split() for l in (of.get("lines") or []) if l.strip()]
        if lines:
            last, before = lines[-1], lines[:-1]
            lookup = last[0] == "AddFV" or (last[0] == "AddE" and len(last) >= 4 and last[3] == "0")
            dups = any(l[0] == "AddE" and len(l) >= 4 and l[3] != "0" for l in before)
            if lookup and dups and ("definitions differ" in of.get("what", "") or "same call returns" in of.get("what", "")):
                return ("add_edge(allowDuplicates=false) / add_face(vertices) on a vertex pair joined by parallel edges returns a different one of them with the "
                        "vertex incidences off (lowest index) than on (first in cache order); replay corpus/kernel/known-findings.scripts#KF-C12-parallel-edge-choice")
    return None

def standard_kernel_check(ctx, pid, profiles, relevant_ops, oracle, count_quick=60, count_thorough=1500, nops=25,
                          extra_files=()):
    """corpus + generated scripts in lock step; fills ctx (violations / broken / coverage)."""
    kr = KernelRun(ctx)
    if not kr.ok():
        return kr
    files = sorted(os.path.join(CORPUS, f) for f in os.listdir(CORPUS) if f.endswith(".scripts")) + list(extra_files)
    for f in files:
        kr.run_file(f, relevant_ops, oracle)
    seeds = [ctx.seed] if ctx.quick() else [ctx.seed, ctx.seed + 1, ctx.seed + 2]
    count = count_quick if ctx.quick() else count_thorough // len(seeds)
    for sd in seeds:
        path = kr.generate(sd, count, profiles, nops if ctx.quick() else nops + 15, "g")
        kr.run_file(path, relevant_ops, oracle)
        if not ctx.quick() or True:
            try: os.remove(path)
            except OSError: pass
    judge(ctx, pid, kr, oracle)
    return kr

def judge(ctx, pid, kr, oracle):
    ctx.cov["evaluations"] += kr.stats["scripts"]
    ctx.cov["distinct_nontrivial"] += len(kr.nontrivial)
    ctx.cov["traces_validated_against_impl"] = ctx.cov.get("traces_validated_against_impl", 0) + kr.stats["scripts"] - len(kr.divs)
    ctx.cov["lockstep_steps"] = ctx.cov.get("lockstep_steps", 0) + kr.stats["steps"]
    ctx.cov["op_histogram"] = kr.stats["ops"]
    ctx.cov["outcome_histogram"] = kr.stats["outcomes"]
    ctx.cov["mode_histogram_final_state"] = kr.modes
    ctx.cov["samples"] += kr.samples
    # 0. the decidable invariants (Kernel/InvB.v: cache exactness, counters) evaluated on every model state reached by a valid history:
    #    they are hypotheses of one-step theorems, so a reachable state violating them leaves those theorems vacuous there
    ctx.cov["model_states_with_invariants_evaluated"] = kr.inv["states"]
    ctx.cov["model_states_valid_history"] = kr.inv["valid_states"]
    names = {"1": "vbu_ok", "2": "ebu_ok", "3": "fbu_ok", "4": "counts_ok"}
    if pid in INV_PROPS:
        for f in kr.inv["fails"][:3]:
            ctx.broken.append({"kind": "invariant", "name": "Kernel/InvB.v " + ",".join(names.get(x, x) for x in f["invariants"].split(",")) +
                               " is false in a reachable model state (hypothesis of the one-step theorems)",
                               "detail": {"script": f["script"], "step": f["step"], "script_lines": f.get("lines")}})
    # 1. oracle failures on the implementation: concrete failing inputs
    for of in kr.oracle_fails:
        if of["oracle"] != pid: continue
        kf = known_oracle_finding(pid, of)
        if kf:
            if kf not in ctx.known: ctx.known.append(kf)
            continue
        ctx.violations.append({"kind": "input", "oracle": of["oracle"], "what": of["what"], "script_name": of["script"],
                               "first_bad_step": of["step"], "script": of.get("lines"),
                               "replay_hint": "bin/check %s --replay <this file>" % pid})
    # 2. a crash / sanitizer abort of the real library on a call with valid arguments that the property
    #    is about is itself a concrete failing input
    rel = kr.relevant_ops
    for d in kr.divs:
        if d.component == "crash":
            opn = d.echo.split(" ")[2].lstrip("@") if len(d.echo.split(" ")) > 2 else ""
            if (rel is None or opn in rel) and "Rejected" not in d.echo:
                ctx.violations.append({"kind": "input", "oracle": "sanitizer", "script_name": d.script, "first_bad_step": d.step,
                                       "what": "the library crashed / aborted (ASan, UBSan or _GLIBCXX_ASSERTIONS) executing " + d.echo,
                                       "script": getattr(d, "lines", None)})
    # 3. divergences in components the property depends on: the correspondence no longer checks
    for d in relevant_divs(pid, kr.divs)[:5]:
        ctx.broken.append({"kind": "correspondence", "name": "lock-step model/impl, component %s" % d.component,
                           "detail": dict(d.as_dict(), script_lines=getattr(d, "lines", None))})
