"""check_C19 (vector algebra + GeometryKernel queries) and check_C20 (concurrent read-only use).

C19: (1) Coq obligations Props/Properties_C19.v; (2) correspondence: harness/run_geo.cc (real library) vs
ocaml/geodriver.ml (model extracted from coq/Geo) on the inputs of gen/geogen.py -- integer results must be
identical, floating-point results are compared with the model's exact rational value under an explicit
rounding bound; (3) impl-side oracle lines "!O C19" (defining formulas evaluated in the harness); (4) floating-point
leg: Props/Properties_C19_float.v (theorems about the Flocq binary64 model coq/Geo/FloatModel.v) and the BIT-EXACT
comparison of run_geo --fvec / --fmesh with that model evaluated inside Coq by vm_compute (float_leg below).

C20: (1) translate/constwrites.py regenerates coq/Gen/ConstWrites.v from the clang AST of the current
sources; (2) Props/Properties_C20.v (schedule theorem + `Forall clean const_methods` by computation);
(3) harness/run_conc.cc built with ThreadSanitizer: N threads of read-only queries on one shared mesh.
"""
import hashlib, json, os, re, struct, sys
from fractions import Fraction
import fw

# Genuine deviations of the unchanged tree from the property text that are reported to the integrator and
# kept green until decided (AGENT_GUIDE "KNOWN_SIGNATURES").  Only the EXACT signature is silenced.
KNOWN_SIGNATURES = [
    # DESIGN section 8, D12: VectorT::l1_norm() (Vector11T.hh:495-498) accumulates the components without
    # std::abs, so it returns the plain sum (Vec3d(-1,2,0).l1_norm() == 1, the L1 norm is 3).  mean() is built on
    # it and IS the arithmetic mean for that reason.  Coq: C19_l1_norm_refuted / C19_l1_norm_partial.
    {"id": "C19-D12-l1_norm-without-abs", "oracle": "defining_formula", "op": "l1_norm", "deviation": "equals_plain_sum"},
]

ENV = {"ASAN_OPTIONS": "detect_leaks=0", "UBSAN_OPTIONS": "halt_on_error=1:print_stacktrace=1"}
RUN = os.path.join(fw.BUILD, "run")

# ------------------------------------------------------------------------------------ scalars

def scalar(tok):
    """token -> Fraction | 'nan' | '+inf' | '-inf'"""
    c = tok[0]
    if c == "x":
        b = int(tok[1:], 16); sign = -1 if b >> 63 else 1; ex = (b >> 52) & 0x7ff; m = b & ((1 << 52) - 1)
        if ex == 0x7ff: return "nan" if m else ("-inf" if sign < 0 else "+inf")
        return sign * (Fraction(m, 1) * Fraction(2) ** -1074 if ex == 0 else Fraction(m | (1 << 52)) * Fraction(2) ** (ex - 1075))
    if c == "y":
        b = int(tok[1:], 16); sign = -1 if b >> 31 else 1; ex = (b >> 23) & 0xff; m = b & ((1 << 23) - 1)
        if ex == 0xff: return "nan" if m else ("-inf" if sign < 0 else "+inf")
        return sign * (Fraction(m, 1) * Fraction(2) ** -149 if ex == 0 else Fraction(m | (1 << 23)) * Fraction(2) ** (ex - 150))
    if c == "q":
        n, d = tok[1:].split("/")
        return Fraction(int(n, 16), int(d, 16))
    return Fraction(int(tok))

UNIT = {"d": Fraction(1, 2 ** 53), "f": Fraction(1, 2 ** 24)}
TINY = {"d": Fraction(1, 2 ** 1074), "f": Fraction(1, 2 ** 149)}

def gamma(k, u): return k * u / (1 - k * u)

EXACT_OPS = {"max", "min", "neg", "max_abs", "min_abs", "l8_norm", "eq", "neq", "lt", "minimize", "maximize", "min2", "max2",
             "minimized", "maximized", "vectorize", "stream_in", "stream_text", "stream_fail", "conv_i", "conv_u", "conv_d"}
REL1_OPS = {"add", "sub", "mul", "div", "smul", "smul_left", "sdiv", "homogenized", "conv_f"}
IMPL_ONLY = {"norm", "normalized", "normalize_cond"}

def vec_bound(op, ty, d, a, b, nvals):
    """per result component: (relative factor on |exact|, absolute term) of the rounding bound"""
    u = UNIT[ty]; t = TINY[ty]
    if op in REL1_OPS: return [(u, t)] * nvals
    if op == "dot": return [(0, gamma(d, u) * sum(abs(x * y) for x, y in zip(a, b)) + d * t)]
    if op == "sqrnorm": return [(0, gamma(d, u) * sum(x * x for x in a) + d * t)]
    if op == "l1_norm": return [(0, gamma(d - 1, u) * sum(abs(x) for x in a) + d * t)]
    if op in ("mean", "mean_abs"): return [(0, gamma(d, u) * sum(abs(x) for x in a) / d + d * t)]
    if op == "cross":
        out = []
        for i in range(3):
            j, k = (i + 1) % 3, (i + 2) % 3
            out.append((0, gamma(2, u) * (abs(a[j] * b[k]) + abs(a[k] * b[j])) + 2 * t))
        return out
    return None

class VecCompare:
    def __init__(self, ctx, cases):
        self.ctx, self.cases = ctx, cases
        self.n_compared = 0; self.n_div = 0; self.divs = []; self.by_op = {}
        self.max_rel = {}      # op -> largest observed |impl-model| / bound
    def diverge(self, ln, op, impl, model, why):
        self.n_div += 1
        if len(self.divs) < 5:
            self.divs.append({"input": self.cases[ln - 1], "line": ln, "op": op, "impl_says": impl, "model_says": model, "why": why})
    def compare(self, impl_out, model_out):
        impl, model = {}, {}
        for text, dst in ((impl_out, impl), (model_out, model)):
            for l in text.split("\n"):
                if not l or l[0] == "!" or l.startswith("done"): continue
                p = l.split(" ")
                try: dst[(int(p[0]), p[1])] = p[2:]
                except ValueError: pass
        for key in sorted(set(impl) | set(model)):
            ln, op = key
            toks = self.cases[ln - 1].split()
            ty, d, kind = toks[0], int(toks[1]), toks[2]
            self.by_op[op] = self.by_op.get(op, 0) + 1
            iv, mv = impl.get(key), model.get(key)
            if op in IMPL_ONLY:
                self.n_compared += 1
                self.check_sqrt_family(ln, op, ty, d, toks, iv, model)
                continue
            if iv is None or mv is None:
                self.diverge(ln, op, iv, mv, "line printed by one side only")
                continue
            self.n_compared += 1
            if ty in "iu" and not (kind == "C" and op in ("conv_f", "conv_d")):
                if iv != mv: self.diverge(ln, op, " ".join(iv), " ".join(mv), "integer results must be identical")
                continue
            if len(iv) != len(mv):
                self.diverge(ln, op, " ".join(iv), " ".join(mv), "different number of values"); continue
            ix, mx = [scalar(t) for t in iv], [scalar(t) for t in mv]
            if any(isinstance(x, str) for x in ix):
                self.diverge(ln, op, " ".join(iv), " ".join(mv), "non-finite result on finite moderate inputs"); continue
            rty = "f" if (op == "conv_f" or (ty == "f" and op != "conv_d")) else "d"
            if op in EXACT_OPS and not (op == "conv_d" and False):
                if ix != mx: self.diverge(ln, op, " ".join(iv), " ".join(mv), "exact operation: values must be equal")
                continue
            vals = [scalar(t) for t in toks[4:]]
            a, b = vals[:d], vals[d:2 * d]
            bnd = vec_bound(op, rty, d, a, b, len(ix))
            if bnd is None:
                self.diverge(ln, op, " ".join(iv), " ".join(mv), "no comparison rule for this operation"); continue
            for x, m, (rel, ab) in zip(ix, mx, bnd):
                lim = rel * abs(m) + ab
                err = abs(x - m)
                if err > lim:
                    self.diverge(ln, op, " ".join(iv), " ".join(mv), "|impl - exact| = %.3e exceeds the rounding bound %.3e" % (float(err), float(lim)))
                    break
                if lim > 0:
                    self.max_rel[op] = max(self.max_rel.get(op, 0.0), float(err / lim))
    def check_sqrt_family(self, ln, op, ty, d, toks, iv, model):
        if iv is None: return
        rty = "f" if ty == "f" else "d"
        u, t = UNIT[rty], TINY[rty]
        S = model.get((ln, "sqrnorm"))
        if S is None:
            self.diverge(ln, op, " ".join(iv), None, "model printed no sqrnorm for this case"); return
        S = scalar(S[0])
        a = [scalar(x) for x in toks[4:4 + d]]
        r = [scalar(x) for x in iv]
        if any(isinstance(x, str) for x in r):
            self.diverge(ln, op, " ".join(iv), "sqrnorm=%s" % S, "non-finite result"); return
        if op == "norm":
            # r = sqrt(fl(S)) rounded:  |r^2 - S| <= gamma_{d+2} S
            lim = gamma(d + 2, u) * S + t
            if abs(r[0] * r[0] - S) > lim or r[0] < 0:
                self.diverge(ln, op, iv[0], "sqrnorm=%s" % S, "norm^2 differs from the exact squared norm by more than gamma_%d" % (d + 2))
            return
        if all(x == 0 for x in a):
            if op == "normalize_cond" and r != a: self.diverge(ln, op, " ".join(iv), "unchanged zero vector", "normalize_cond must not touch a zero vector")
            return
        g = gamma(2 * d + 8, u)
        for ri, ai in zip(r, a):
            if (ri > 0) != (ai > 0) and not (ai == 0 and ri == 0) and not (abs(ai) * abs(ai) < S * t):
                self.diverge(ln, op, " ".join(iv), "a/|a|", "sign of a component differs"); return
            if abs(ri * ri * S - ai * ai) > g * ai * ai + t * S:
                self.diverge(ln, op, " ".join(iv), "a/|a|", "component^2 * |a|^2 differs from a_i^2 beyond gamma_%d" % (2 * d + 8)); return

def oracle_lines(ctx, out, cases=None, path=None, mode="vec", scripts=None):
    """'!O C19 ...' lines of the harness: defining formula vs library.  Known signatures are counted, the rest are violations."""
    known = 0; bad = []; cur = None
    for l in out.split("\n"):
        if l.startswith("####"): cur = l[4:].strip()
        if not l.startswith("!O C19"): continue
        f = dict(p.split("=", 1) for p in re.findall(r"(\w+=\S+)", l))
        if any(f.get("op") == k["op"] and f.get("deviation") == k["deviation"] for k in KNOWN_SIGNATURES):
            known += 1; continue
        f["script"] = cur
        bad.append((l, f))
    seen = set()
    for l, f in bad:
        op = f.get("op", "?")
        if op in seen or len(ctx.violations) >= 5: continue
        seen.add(op)
        v = {"kind": "input", "oracle": "defining_formula", "op": op, "what": l,
             "replay_cmd": "build/bin/san/run_geo --%s %s" % (mode, path)}
        if cases is not None and "line" in f: v["input"] = cases[int(f["line"]) - 1]
        if scripts is not None and f.get("script") in scripts: v["script"] = f["script"]; v["script_lines"] = scripts[f["script"]]
        ctx.violations.append(v)
    return known, len(bad)

# ------------------------------------------------------------------------------------ meshes

def split_blocks(text):
    blocks, cur, name = {}, None, None
    for l in text.split("\n"):
        if l.startswith("####"):
            name = l[4:].strip(); cur = []; blocks[name] = cur
        elif cur is not None and l: cur.append(l)
    return blocks

def mesh_records(lines):
    """-> (echo lines, {(qindex, tag, id): tokens})"""
    echo, rec, q = [], {}, 0
    for l in lines:
        if l.startswith("=="):
            echo.append(l)
            if l.endswith(" Q"): q += 1
        elif l.startswith("!"): continue
        else:
            p = l.split(" ")
            rec[(q, p[0], p[1])] = p[2:]
    return echo, rec

MESH_EXACT = {"vec_e": "vec_e", "vec_he": "vec_he", "fverts": "fverts", "cverts": "cverts", "ndeg": "ndeg"}
MESH_REL1 = {"bary_e": "bary_e", "bary_f": "bary_f", "bary_c": "bary_c"}

def compare_meshes(ctx, scripts, impl_out, model_out, stats):
    ib, mb = split_blocks(impl_out), split_blocks(model_out)
    u, t = UNIT["d"], TINY["d"]
    divs = []
    def div(name, what, key, iv, mv):
        stats["divergences"] += 1
        if len(divs) < 5:
            divs.append({"script": name, "script_lines": scripts.get(name), "component": key[1], "entity": key[2], "query_no": key[0],
                         "impl_says": iv, "model_says": mv, "why": what})
    for name in scripts:
        il, ml = ib.get(name), mb.get(name)
        if il is None or ml is None:
            stats["divergences"] += 1
            divs.append({"script": name, "why": "script missing in the output of " + ("impl" if il is None else "model")}); continue
        if any("!! CRASH" in l for l in il):
            div(name, "the harness crashed (sanitizer abort / signal) on this script", (0, "crash", "-"), [l for l in il if "!! CRASH" in l], None); continue
        ie, ir = mesh_records(il); me, mr = mesh_records(ml)
        if ie != me:
            k = next((i for i, (x, y) in enumerate(zip(ie, me)) if x != y), min(len(ie), len(me)))
            div(name, "operation echo / result differs", (0, "echo", str(k)), ie[k] if k < len(ie) else None, me[k] if k < len(me) else None); continue
        stats["scripts"] += 1
        for key, mv in mr.items():
            q, tag, eid = key
            stats["queries"] += 1
            stats["by_query"][tag] = stats["by_query"].get(tag, 0) + 1
            if tag in MESH_EXACT:
                iv = ir.get(key)
                if iv is None or [scalar(x) for x in iv] != [scalar(x) for x in mv]: div(name, "must be equal", key, iv, mv)
            elif tag in MESH_REL1:
                iv = ir.get(key)
                if iv is None: div(name, "missing on the impl side", key, iv, mv); continue
                for x, m in zip([scalar(v) for v in iv], [scalar(v) for v in mv]):
                    if isinstance(x, str) or abs(x - m) > u * abs(m) + t:
                        div(name, "barycenter differs from the exact rational value by more than one rounding", key, iv, mv); break
            elif tag in ("len2_e", "len2_he"):
                iv = ir.get((q, "len_" + tag[5:], eid))
                if iv is None: div(name, "missing on the impl side", key, iv, mv); continue
                r, S = scalar(iv[0]), scalar(mv[0])
                if isinstance(r, str) or r < 0 or abs(r * r - S) > gamma(5, u) * S + t: div(name, "length^2 differs from the exact squared length", key, iv, mv)
            elif tag == "nraw":
                iv = ir.get((q, "normal", eid))
                if iv is None: div(name, "missing on the impl side", key, iv, mv); continue
                n = [scalar(x) for x in mv]; r = [scalar(x) for x in iv]
                deg = mr.get((q, "ndeg", eid)) == ["1"]
                S = sum(x * x for x in n)
                if deg:
                    if r != [0, 0, 0]: div(name, "degenerate face: normal must be (0,0,0)", key, iv, mv)
                elif S == 0:
                    # the code normalises the zero vector: 0/0 in every component
                    if r != ["nan"] * 3: div(name, "zero cross product: the code divides 0 by 0, every component must be NaN", key, iv, mv)
                    stats["nan_normals"] += 1
                else:
                    g = gamma(24, u)
                    ok = not any(isinstance(x, str) for x in r)
                    if ok:
                        for ri, ni in zip(r, n):
                            if (ri > 0) != (ni > 0) and not (ri == 0 and ni == 0): ok = False
                            if abs(ri * ri * S - ni * ni) > g * max(ni * ni, S * u): ok = False
                    if not ok: div(name, "normal is not the normalised cross product the model computes", key, iv, mv)
                    stats["normals"] += 1
        for key in ir:
            if key[1] == "nopp": stats["opposite_checked"] += 1
            if key[1] in MESH_EXACT or key[1] in MESH_REL1:
                if key not in mr: div(name, "printed by the impl side only", key, ir[key], None)
    return divs

# ------------------------------------------------------------------------------------ floating-point leg (bit exact)
# The library's float / double results (bit patterns printed by run_geo --fvec / --fmesh) against the Flocq model of
# coq/Geo/FloatModel.v evaluated INSIDE Coq (vm_compute on files written under build/run/fleg/): the generated file
# carries inputs and the library's values, Coq answers with the number of values it compared and the cases that differ
# (Geo/FloatDriver.v: fcheck / fmesh_check).  NaN results compare as "is NaN" (-1 on both sides).

FLEG = os.path.join(RUN, "fleg")
FL_OPS = {"U": ["max", "min", "neg", "sqrnorm", "l1_norm", "mean", "max_abs", "min_abs", "l8_norm", "mean_abs", "norm", "normalize_cond", "normalized"],
          "B": ["eq", "neq", "lt", "minimize", "maximize", "min2", "max2", "minimized", "maximized", "add", "sub", "mul", "dot", "div"],
          "S": ["vectorize", "smul", "smul_left", "sdiv"]}
FL_KIND = {"U": "KU", "B": "KB", "S": "KS"}
FL_MESH_TAGS = {"vec_e": 10, "vec_he": 11, "len_e": 12, "len_he": 13, "bary_e": 14, "fverts": 20, "bary_f": 21, "ndeg": 22, "normal": 23, "cverts": 30, "bary_c": 31}
FL_SHARD = 240           # vector cases per coqc run (about 75 cases/s under vm_compute: ~4 s per shard incl. start-up)
FL_PAR = 6               # coqc processes in parallel

def fl_tok(t):
    """token printed by run_geo -> canonical integer (bit pattern; every NaN = -1)"""
    if t[0] == "x":
        b = int(t[1:], 16); return -1 if ((b >> 52) & 0x7ff) == 0x7ff and (b & ((1 << 52) - 1)) else b
    if t[0] == "y":
        b = int(t[1:], 16); return -1 if ((b >> 23) & 0xff) == 0xff and (b & ((1 << 23) - 1)) else b
    return int(t)

def fl_ops_of(ty, d, kind, mask):
    if kind == "C": return {"d": ["conv_f"], "f": ["conv_d"], "i": ["conv_f", "conv_d"]}[ty]
    return FL_OPS[kind] + (["homogenized"] if (kind == "U" and d == 4) else []) + (["cross"] if (kind == "B" and d == 3) else [])

def zl(l): return "[" + ";".join(str(x) for x in l) + "]"
def zll(ll): return "[" + ";".join(zl(l) for l in ll) + "]"

def fl_term(line, impl, ln):
    """-> (Coq term of type fany * list (list Z), ops, number of values)"""
    t = line.split()
    ty, d, kind, mask = t[0], int(t[1]), t[2], t[3]
    vals = [int(x[1:], 16) if x[0] in "xy" else int(x) for x in t[4:]]          # inputs: the raw bit patterns (NaN payloads included)
    ops = fl_ops_of(ty, d, kind, mask)
    want = [[fl_tok(x) for x in impl.get((ln, op), [])] for op in ops]
    if kind == "C": head = {"d": "Ad2f", "f": "Af2d", "i": "Ai2fd"}[ty] + " " + zl(vals)
    else: head = "%s %s %s" % ("A64" if ty == "d" else "A32", FL_KIND[kind], zl(vals))
    return "(%s, %s)" % (head, zll(want)), ops, sum(len(w) for w in want)

FL_HEAD = ("From Coq Require Import List ZArith.\nFrom OVM Require Import Kernel.State Kernel.Ops Geo.FloatDriver.\nImport ListNotations.\n"
           "Set Printing Depth 100000000.\nSet Printing Width 100000.\n")

def fl_coq(name, body, timeout=900):
    """write build/run/fleg/<name>.v, run coqc, return the parsed value printed by its single Eval (or an error string)"""
    import ast
    path = os.path.join(FLEG, name + ".v")
    open(path, "w").write(FL_HEAD + body)
    rc, out, err = fw.sh(["coqc", "-Q", fw.COQ, "OVM", name + ".v"], cwd=FLEG, timeout=timeout)
    if rc != 0: return "coqc rc=%d: %s" % (rc, (out + err)[-1500:])
    m = re.search(r"^\s*=\s*(.*?)\n\s*:\s", out, flags=re.S | re.M)
    if not m: return "no value printed: " + out[-500:]
    txt = m.group(1).replace(";", ",").replace("Some ", "").replace("%Z", "").replace("%nat", "")
    try: return ast.literal_eval(txt)
    except Exception as ex: return "unparsable value (%s): %s" % (ex, txt[:500])

def float_leg(ctx, impl):
    import geogen
    from concurrent.futures import ThreadPoolExecutor
    global FLEG
    FLEG = os.path.join(RUN, "fleg-%s-%d" % (ctx.tier, ctx.seed))      # one scratch directory per tier and seed (runs may overlap)
    os.makedirs(FLEG, exist_ok=True)
    for f in os.listdir(FLEG):
        try: os.unlink(os.path.join(FLEG, f))
        except OSError: pass
    with fw.Lock("coq"):
        fw.ensure_makefile()
        rc, out, err = fw.sh(["make", "-k", "-j16", "Geo/FloatDriver.vo"], cwd=fw.COQ, timeout=1500)
    if rc != 0:
        ctx.broken.append({"kind": "model-build", "name": "Geo/FloatDriver.v", "detail": (out + err)[-2000:]}); return
    st = {"vector_cases": 0, "vector_values_compared": 0, "vector_divergences": 0, "by_type_kind": {}, "nan_results": 0, "inf_results": 0, "subnormal_results": 0,
          "mesh_scripts": 0, "mesh_records_compared": 0, "mesh_divergences": 0, "coqc_runs": 0, "coqc_seconds": 0.0}
    import time as _t
    # ---- vectors
    cases = geogen.float_cases(ctx.seed, ctx.quick())
    vpath = os.path.join(RUN, "C19-fvec-%d.txt" % ctx.seed)
    open(vpath, "w").write("\n".join(cases) + "\n")
    rc1, o1, e1 = fw.sh([impl, "--fvec", vpath], timeout=1500, env=ENV)
    if rc1 != 0 or "done oracle_fails" not in o1[-200:]:
        last = [l for l in o1.split("\n") if l and l[0].isdigit()][-1:] or ["0"]
        ln = int(last[0].split()[0])
        ctx.violations.append({"kind": "input", "oracle": "sanitizer", "what": "run_geo --fvec aborted (rc=%d): %s" % (rc1, e1[-1500:]),
                               "input": cases[max(0, ln - 1):ln + 1], "replay_cmd": "build/bin/san/run_geo --fvec " + vpath})
    implv = {}
    for l in o1.split("\n"):
        if not l or not l[0].isdigit(): continue
        p = l.split(" ")
        implv[(int(p[0]), p[1])] = p[2:]
        for t in p[2:]:
            if t[0] == "x":
                b = int(t[1:], 16); e = (b >> 52) & 0x7ff; m = b & ((1 << 52) - 1)
                if e == 0x7ff: st["nan_results" if m else "inf_results"] += 1
                elif e == 0 and m: st["subnormal_results"] += 1
    shards = []
    for k in range(0, len(cases), FL_SHARD):
        terms, meta, nvals = [], [], 0
        for i in range(k, min(k + FL_SHARD, len(cases))):
            term, ops, nv = fl_term(cases[i], implv, i + 1)
            terms.append(term); meta.append((i, ops)); nvals += nv
            key = cases[i][0] + cases[i].split()[2]
            st["by_type_kind"][key] = st["by_type_kind"].get(key, 0) + 1
        shards.append(("fvec_%d" % (k // FL_SHARD), "Open Scope Z_scope.\nEval vm_compute in (fcheck [\n%s]).\n" % ";\n".join(terms), meta, nvals))
    t0 = _t.time()
    with ThreadPoolExecutor(FL_PAR) as ex:
        results = list(ex.map(lambda sh: fl_coq(sh[0], sh[1]), shards))
    st["coqc_runs"] += len(shards); st["coqc_seconds"] += round(_t.time() - t0, 1)
    divs = []
    for (name, body, meta, nvals), res in zip(shards, results):
        if isinstance(res, str):
            ctx.broken.append({"kind": "correspondence", "name": "float leg: Coq evaluation of %s failed" % name, "detail": {"error": res, "file": os.path.join(FLEG, name + ".v")}}); continue
        n, bad = res
        st["vector_cases"] += len(meta); st["vector_values_compared"] += n
        if n != nvals and not bad:
            ctx.broken.append({"kind": "correspondence", "name": "float leg: %s compared %d values, the library printed %d" % (name, n, nvals), "detail": {"file": os.path.join(FLEG, name + ".v")}})
        for idx, got in bad:
            i, ops = meta[idx]
            for op, g in zip(ops, got):
                w = implv.get((i + 1, op))
                if w is None or [fl_tok(x) for x in w] != list(g):
                    st["vector_divergences"] += 1
                    divs.append({"input": cases[i], "line": i + 1, "op": op, "impl_says": " ".join(w) if w else None,
                                 "model_says": " ".join(("nan" if x == -1 else ("%x" % x)) for x in g), "why": "bit patterns differ (NaN compares as is-NaN)",
                                 "replay_cmd": "build/bin/san/run_geo --fvec %s ; coqc -Q coq OVM %s" % (vpath, os.path.join(FLEG, name + ".v"))})
    seen = set()
    for dv in divs:
        if dv["op"] in seen or len(seen) >= 4: continue
        seen.add(dv["op"])
        ctx.broken.append({"kind": "correspondence", "name": "VectorT<%s> %s: library bit pattern vs Flocq model (Geo/FloatModel.v)" % ("double" if dv["input"][0] == "d" else "float", dv["op"]), "detail": dv})
    ctx.cov["evaluations"] += st["vector_cases"]
    ctx.cov["distinct_nontrivial"] += len({c for c in cases if not all(v in ("x0000000000000000", "y00000000", "0") for v in c.split()[4:])})
    # ---- meshes
    scripts = geogen.float_mesh_scripts(ctx.seed, ctx.quick())
    mpath = os.path.join(RUN, "C19-fmesh-%d.scripts" % ctx.seed)
    write_scripts(mpath, scripts)
    rc1, m1, e1 = fw.sh([impl, "--fmesh", mpath], timeout=1500, env=ENV)
    blocks = split_blocks(m1)
    jobs = []
    for name, lines in scripts.items():
        il = blocks.get(name)
        if il is None or any("!! CRASH" in l for l in il):
            ctx.broken.append({"kind": "correspondence", "name": "float leg: run_geo --fmesh crashed / printed nothing for a script", "detail": {"script": name, "script_lines": lines, "out": (il or [])[-5:]}}); continue
        cmds = []
        for l in lines:
            t = l.split()
            if t[0] == "Q": cmds.append("FQ")
            elif t[0] == "PosB": cmds.append("FPos %s %d %d %d" % (t[1], int(t[2][1:], 16), int(t[3][1:], 16), int(t[4][1:], 16)) if int(t[1]) >= 0 else "FPos 1000000 0 0 0")
            elif t[0] == "Pos": cmds.append("FPos %s %d %d %d" % ((t[1],) + tuple(fl_tok(geogen.dbits(float(int(x)))) for x in t[2:5])) if int(t[1]) >= 0 else "FPos 1000000 0 0 0")
            else: cmds.append("FOp (%s)" % coq_op(t))
        want = []
        for l in il:
            if l.startswith("=="):
                if l.endswith(" Q"): want.append((1, 0, []))
                else:
                    r = l.split(" -> ")[1].split()
                    want.append((0, -1 if r[0] == "Rejected" else (-2 if r[1] == "-" else int(r[1])), []))
            elif l[0] == "!" : continue
            else:
                p = l.split(" ")
                if p[0] in FL_MESH_TAGS: want.append((FL_MESH_TAGS[p[0]], int(p[1]), [fl_tok(x) for x in p[2:]]))
        body = ("Open Scope nat_scope.\nEval vm_compute in (fmesh_check [\n%s]\n [%s]).\n"
                % (";\n".join(cmds), ";\n".join("((%d)%%Z, (%d)%%Z, [%s])" % (a, b, ";".join("(%d)%%Z" % x for x in c)) for a, b, c in want)))
        jobs.append((name, body, want, il))
    t0 = _t.time()
    with ThreadPoolExecutor(FL_PAR) as ex:
        results = list(ex.map(lambda j: fl_coq("fmesh_" + j[0].replace("-", "_"), j[1]), jobs))
    st["coqc_runs"] += len(jobs); st["coqc_seconds"] += round(_t.time() - t0, 1)
    nbroken = 0
    for (name, body, want, il), res in zip(jobs, results):
        if isinstance(res, str):
            ctx.broken.append({"kind": "correspondence", "name": "float leg: Coq evaluation of mesh script %s failed" % name, "detail": {"error": res}}); continue
        n, bad = res
        st["mesh_scripts"] += 1; st["mesh_records_compared"] += n
        if bad or n != len(want):
            st["mesh_divergences"] += max(1, len(bad))
            if nbroken < 3:
                nbroken += 1
                inv = {v: k for k, v in FL_MESH_TAGS.items()}
                def show(r): return None if r is None else "%s %d %s" % (inv.get(r[0], {0: "op-result", 1: "Q"}.get(r[0], r[0])), r[1], " ".join("nan" if x == -1 else "%x" % x for x in r[2]))
                ctx.broken.append({"kind": "correspondence", "name": "GeometryKernel<Vec3d> queries: library bit patterns vs Flocq model (Geo/FloatModel.v)",
                                   "detail": {"script": name, "script_lines": scripts[name], "model_records": n, "impl_records": len(want),
                                              "differing": [{"index": i, "model_says": show(g), "impl_says": show(want[i]) if i < len(want) else None} for i, g in bad[:5]],
                                              "replay_cmd": "build/bin/san/run_geo --fmesh " + mpath}})
    ctx.cov["evaluations"] += st["mesh_records_compared"]
    ctx.cov["distinct_nontrivial"] += st["mesh_scripts"]
    ctx.cov["float_leg"] = st
    ctx.cov["samples"].append({"float_case": cases[0], "impl": [l for l in o1.split("\n") if l.startswith("1 ")][9:14]})

def coq_op(t):
    """kernel script line (absolute operands) -> Coq term of type Kernel.Ops.op"""
    name, args = t[0][1:], [int(x) for x in t[1:]]
    if t[0][0] != "@": raise ValueError("only absolute operations: " + " ".join(t))
    nl = lambda l: "[" + ";".join(str(x) for x in l) + "]"
    b = lambda x: "true" if x else "false"
    if any(a < 0 for a in args): return "DelVertex 1000000"          # a negative handle is rejected by both sides
    one = {"DelV": "DelVertex", "DelE": "DelEdge", "DelF": "DelFace", "DelC": "DelCell"}
    two = {"SwapV": "SwapV", "SwapE": "SwapE", "SwapF": "SwapF", "SwapC": "SwapC"}
    flag = {"EnVBU": "EnableVBU", "EnEBU": "EnableEBU", "EnFBU": "EnableFBU", "EnDef": "EnableDeferred", "EnFast": "EnableFast", "Clear": "Clear"}
    if name == "AddV": return "AddVertex"
    if name == "AddVs": return "AddVertices %d" % args[0]
    if name == "AddE": return "AddEdge %d %d %s" % (args[0], args[1], b(args[2]))
    if name == "AddF": return "AddFace %s %s" % (nl(args[1:]), b(args[0]))
    if name == "AddFV": return "AddFaceV %s" % nl(args)
    if name == "AddC": return "AddCell %s %s" % (nl(args[1:]), b(args[0]))
    if name == "SetE": return "SetEdge %d %d %d" % tuple(args)
    if name == "SetF": return "SetFace %d %s" % (args[0], nl(args[1:]))
    if name == "SetC": return "SetCell %d %s" % (args[0], nl(args[1:]))
    if name in one: return "%s %d" % (one[name], args[0])
    if name in two: return "%s %d %d" % (two[name], args[0], args[1])
    if name == "GC": return "CollectGarbage"
    if name in flag: return "%s %s" % (flag[name], b(args[0]))
    raise ValueError("unknown operation " + name)

# ------------------------------------------------------------------------------------ C19

def run_pair(impl, model, mode, path, timeout=1500):
    rc1, o1, e1 = fw.sh([impl, "--" + mode, path], timeout=timeout, env=ENV)
    rc2, o2, e2 = fw.sh([model, mode, path], timeout=timeout)
    return (rc1, o1, e1), (rc2, o2, e2)

def load_replay(ctx):
    if not getattr(ctx, "replay", None): return [], {}
    try: rec = json.load(open(ctx.replay))
    except Exception: return [], {}
    cases, scripts = [], {}
    def take(r):
        if isinstance(r.get("input"), str): cases.append(r["input"])
        if r.get("script_lines"): scripts["replay-%d" % len(scripts)] = r["script_lines"]
    take(rec)
    for b in rec.get("broken", []):
        if isinstance(b.get("detail"), dict): take(b["detail"])
    return cases, scripts

def check_C19(ctx):
    import geogen
    os.makedirs(RUN, exist_ok=True)
    fw.coq_prove(ctx, "Props/Properties_C19.v")
    import checks; checks.also_prove_file(ctx, "Props/Properties_C19_float.v")
    impl = fw.build_harness(ctx, "san", "run_geo")
    try:
        model = fw.build_driver(ctx, "Extract/ExtractGeo.v", "geodriver.ml", "geodriver")
    except RuntimeError as ex:
        ctx.broken.append({"kind": "model-build", "name": "Extract/ExtractGeo.v", "detail": str(ex)[-2500:]})
        model = None
    rcases, rscripts = load_replay(ctx)
    known_hits = 0
    if impl and model:
        # ---- vectors
        cases = rcases + geogen.vec_cases(ctx.seed, ctx.quick())
        vpath = os.path.join(RUN, "C19-vec-%d.txt" % ctx.seed)
        open(vpath, "w").write("\n".join(cases) + "\n")
        (rc1, o1, e1), (rc2, o2, e2) = run_pair(impl, model, "vec", vpath)
        if rc1 != 0 or "done oracle_fails" not in o1[-200:]:
            # sanitizer abort / crash: stdout is line buffered, so the case being evaluated is the last one printed or the next
            last = [l for l in o1.split("\n") if l and l[0].isdigit()][-1:] or ["0"]
            ln = int(last[0].split()[0])
            ctx.violations.append({"kind": "input", "oracle": "sanitizer", "what": "run_geo --vec aborted (rc=%d): %s" % (rc1, e1[-1500:]),
                                   "input": cases[max(0, ln - 1):ln + 1], "replay_cmd": "build/bin/san/run_geo --vec " + vpath})
        if rc2 != 0:
            ctx.broken.append({"kind": "correspondence", "name": "geodriver vec failed", "detail": {"rc": rc2, "stderr": e2[-1500:]}})
        vc = VecCompare(ctx, cases)
        vc.compare(o1, o2)
        k, nbad = oracle_lines(ctx, o1, cases, vpath, "vec")
        known_hits += k
        for dv in vc.divs[:3]:
            ctx.broken.append({"kind": "correspondence", "name": "VectorT %s: library vs model (Geo/VecModel.v)" % dv["op"], "detail": dv})
        ctx.cov["evaluations"] += len(cases)
        ctx.cov["vector_results_compared"] = vc.n_compared
        ctx.cov["vector_divergences"] = vc.n_div
        ctx.cov["vector_results_by_op"] = dict(sorted(vc.by_op.items()))
        ctx.cov["float_max_error_over_bound"] = {k: round(v, 4) for k, v in sorted(vc.max_rel.items())}
        ctx.cov["oracle_failures_other_than_known"] = nbad
        nontrivial = set()
        by_type = {}
        for c in cases:
            t = c.split()
            d = int(t[1]); vals = t[4:]
            by_type[t[0] + t[1] + t[2]] = by_type.get(t[0] + t[1] + t[2], 0) + 1
            zero = all(v in ("0", "x0000000000000000", "y00000000") for v in vals)
            if zero or (t[2] in "BT" and vals[:d] == vals[d:2 * d]): continue
            nontrivial.add(c)
        ctx.cov["distinct_nontrivial"] += len(nontrivial)
        ctx.cov["vector_cases_by_type_dim_kind"] = dict(sorted(by_type.items()))
        ctx.cov["samples"] += [{"vector_case": cases[i], "impl": [l for l in o1.split("\n") if l.startswith("%d " % (i + 1))][:4]}
                               for i in (len(rcases), len(cases) // 2, len(cases) - 1)]
        # ---- meshes
        scripts = dict(rscripts); scripts.update(geogen.mesh_scripts(ctx.seed, ctx.quick()))
        mpath = os.path.join(RUN, "C19-mesh-%d.scripts" % ctx.seed)
        with open(mpath, "w") as f:
            for name, lines in scripts.items():
                f.write("#### %s\n" % name)
                for l in lines: f.write(l + "\n")
        (rc1, m1, e1), (rc2, m2, e2) = run_pair(impl, model, "mesh", mpath)
        if rc2 != 0:
            ctx.broken.append({"kind": "correspondence", "name": "geodriver mesh failed", "detail": {"rc": rc2, "stderr": e2[-1500:]}})
        stats = {"scripts": 0, "queries": 0, "divergences": 0, "by_query": {}, "normals": 0, "nan_normals": 0, "opposite_checked": 0}
        mdivs = compare_meshes(ctx, scripts, m1, m2, stats)
        for dv in mdivs[:3]:
            ctx.broken.append({"kind": "correspondence", "name": "GeometryKernel %s: library vs model (Geo/GeoModel.v)" % dv.get("component", "?"), "detail": dv})
        k, nbad2 = oracle_lines(ctx, m1, None, mpath, "mesh", scripts)
        ctx.cov["oracle_failures_other_than_known"] += nbad2
        ctx.cov["evaluations"] += stats["queries"]
        ctx.cov["mesh"] = {k: v for k, v in stats.items()}
        ctx.cov["distinct_nontrivial"] += len({hashlib.sha256("\n".join(l).encode()).hexdigest() for n, l in scripts.items()
                                               if any(x.startswith("@AddFV") and len(x.split()) >= 4 for x in l)})
        name0 = next(iter(geogen.mesh_scripts(ctx.seed, True)))
        ctx.cov["samples"].append({"mesh_script": scripts[name0][:14]})
        # ---- floating-point leg: bit patterns of the library vs the Flocq model evaluated in Coq
        try:
            float_leg(ctx, impl)
        except Exception as ex:
            import traceback
            ctx.broken.append({"kind": "correspondence", "name": "float leg failed to run", "detail": traceback.format_exc()[-2500:]})
        # ---- search: when an obligation or the tie is broken and no oracle has produced an input yet
        if ctx.broken and not ctx.violations:
            extra = geogen.search_cases(ctx.seed, 4000 if ctx.quick() else 100000)
            spath = os.path.join(RUN, "C19-search-%d.txt" % ctx.seed)
            open(spath, "w").write("\n".join(extra) + "\n")
            rc, o, e = fw.sh([impl, "--vec", spath], timeout=1500, env=ENV)
            k, nb = oracle_lines(ctx, o, extra, spath, "vec")
            ctx.cov["search_cases"] = len(extra)
    ctx.cov["known_signature_hits"] = known_hits
    if known_hits and any(f.get("id") == "C19-D12-l1_norm-without-abs" for f in fw.known_findings("C19")):
        ctx.known.append("VectorT::l1_norm() returns the plain sum of the components, not the sum of absolute values (D12; e.g. Vec3d(-1,2,0).l1_norm() == 1)")
    if any(f.get("id") == "C19-normals-nonconvex" for f in fw.known_findings("C19")) and not ctx.broken:
        ctx.known.append("halfface normals of the two sides of a planar NON-CONVEX face are not opposite (first-corner normal; witness proved in C19_normals_opposite_planar_only_refuted and reproduced by the dart shape of the generator)")
    if known_hits:
        ctx.notes.append("KNOWN_SIGNATURES[C19-D12-l1_norm-without-abs] reproduced on %d generated vectors with a negative component "
                         "(l1_norm() returns the plain sum; Coq: C19_l1_norm_refuted / C19_l1_norm_partial); not counted, reported to the integrator" % known_hits)
    ctx.cov["rule"] = (
        "vector cases from gen/geogen.py (one SplitMix64 state): the lattice {-2..2}^d (unsigned {0..4}^d) exhaustively for unary and "
        "vector-scalar operators, ALL pairs for d=2,3 in thorough (d=2 all pairs + every 7th pair of d=3 in quick; sampled pairs for d=4), "
        "bounded random and special values (INT_MIN/MAX, 2^32-1, -0.0, subnormals, ties, equal prefixes); every operator of Vector11T.hh is "
        "evaluated by the real library (both the copying and the in-place form, member and free functions) and by the extracted model: "
        "int/unsigned results must be textually identical, float/double results are converted from their bit patterns to exact rationals and "
        "must lie within the stated rounding bound (u per single rounding, gamma_n * sum|terms| for reductions, squares for sqrt) of the model's "
        "exact rational value; FLOATING-POINT LEG (coverage.float_leg): gen/geogen.py float_cases / float_mesh_scripts (special values: signed zeros, subnormals, "
        "overflowing / underflowing squares and products, infinities, quiet and signalling NaN patterns; random patterns over the whole exponent range; moderate "
        "exponents where the accumulation order shows in the last bit; all orders of big + 1 - big; double<->float and int->float/double conversions; "
        "meshes with arbitrary binary64 positions) are evaluated by the library (run_geo --fvec / --fmesh) and by the Flocq model Geo/FloatModel.v INSIDE Coq "
        "(vm_compute, one coqc per shard under build/run/fleg/): every result BIT PATTERN must be equal (NaN compares as is-NaN), for double and float, "
        "all operators incl. norm / normalize / normalized / normalize_cond (sqrt), x/0 and 0/0, and vector/length/barycenters/normal of every live entity; mesh scripts (tets, hexes, prisms, pyramids, planar convex / non-convex / degenerate polygons, integer positions, "
        "then position writes, swaps, deletions, garbage collection) compare vector/length/barycenters/normals of every live entity. "
        "distinct_nontrivial = distinct case lines whose operands are not all zero and (binary kinds) not identical, plus distinct mesh "
        "scripts that contain a face with >= 3 vertices. The impl-side oracle recomputes every result from the defining formula in the harness.")
    ctx.cov["samples"] += [{"theorem": t} for t in fw.theorem_statements("Props/Properties_C19.v", 40)
                           if any(k in t for k in ("C19_l1_norm", "C19_cross_orth", "C19_lt_strict", "C19_normals_opposite_triangle"))][:4]
    ctx.cov["level_note"] = ("proof for the integer / rational algebra and the geometric formulas; floating point: Props/Properties_C19_float.v proves, for the "
                             "IEEE-754 binary64 model (Flocq) that the library matches bit for bit on the generated inputs, correct rounding of every component-wise operation, "
                             "forward error bounds of dot / sqrnorm / norm / normalized / barycenters in the code's evaluation order and exactness on integer-valued doubles "
                             "(binary32 is covered by the bit-exact correspondence only; the tolerance comparison against the rational model is kept as a second leg); "
                             "C19_l1_norm_refuted and C19_normals_opposite_planar_only_refuted "
                             "are refutations of the property text on the faithful model, with C19_l1_norm_partial / "
                             "C19_normals_opposite_triangle / C19_normals_opposite_planar_convex as the strongest true statements")
    ctx.assumptions += [
        "int: no signed overflow (generated operands keep every intermediate result inside 32 bits; overflow is UB in C++ and exact in the model)",
        "division: divisors are non-zero (zero divisors are skipped by both sides); double->int conversions are in range",
        "floating point, rational leg: finite inputs of moderate exponent; bounds checked against the exact rational value; sqrt related to the model through squares",
        "floating point, bit-exact leg (trusted base): the harness is built by clang++ -O1 WITHOUT -ffast-math / -march flags for baseline x86-64: scalar SSE2 arithmetic in the "
        "declared type (no x87 extended intermediates), no fused multiply-add (the baseline ISA has no FMA instruction, so -ffp-contract cannot fuse a*b+c), no reassociation; "
        "the rounding mode is the default round-to-nearest-even; std::sqrt(double/float) is the correctly rounded sqrtsd/sqrtss resp. glibc sqrt; the sign and payload of NaN "
        "results are not compared; Flocq's Binary/Bits formalisation of IEEE-754 and Coq's vm_compute are trusted; theorems hold for binary64 (Dops), binary32 is correspondence only",
        "the real-number theorems of Properties_C19_float.v use the standard-library axioms named by Print Assumptions (ClassicalDedekindReals.sig_forall_dec, sig_not_dec, "
        "FunctionalExtensionality.functional_extensionality_dep, Classical_Prop.classic)",
        "mixed-scalar arithmetic (e.g. Vec3i * double), apply(), swap(), iterators, and DIM other than 2,3,4 are not exercised",
    ]

# ------------------------------------------------------------------------------------ C20

TSAN_ENV = {"TSAN_OPTIONS": "halt_on_error=0 exitcode=66 report_signal_unsafe=0 history_size=4"}

def write_scripts(path, scripts):
    with open(path, "w") as f:
        for name, lines in scripts.items():
            f.write("#### %s\n" % name)
            for l in lines: f.write(l + "\n")

def tsan_reports(err):
    reps = re.split(r"(?=WARNING: ThreadSanitizer)", err)
    return [r for r in reps if r.startswith("WARNING: ThreadSanitizer")]

def run_conc(impl, path, nthreads, rounds, timeout=1500):
    rc, out, err = fw.sh([impl, path, str(nthreads), str(rounds)], timeout=timeout, env=TSAN_ENV)
    return rc, out, err

def check_C20(ctx):
    import geogen
    os.makedirs(RUN, exist_ok=True)
    # ---- (c) regenerate the write-set table from the current sources (fails closed)
    try:
        import importlib, constwrites
        importlib.reload(constwrites)
        text = constwrites.generate()
        changed = fw.write_if_changed(os.path.join(fw.COQ, "Gen", constwrites.OUT_NAME), text)
        if changed: ctx.log("regenerated Gen/ConstWrites.v changed")
        rows = re.findall(r'^  mk "([^"]+)" "([^"]+)" "((?:[^"]|"")*)" (KConst|KIter) (true|false) (\[[^\]]*\]) (\[[^\]]*\]) (\[[^\]]*\]) (\d+) (\[[^\]]*\]) (\[[^\]]*\])', text, flags=re.M)
        ctx.cov["const_table"] = {"kernel_const_members": sum(1 for r in rows if r[3] == "KConst"), "iterator_members": sum(1 for r in rows if r[3] == "KIter"),
                                  "classes": len({r[0] for r in rows}), "regenerated_changed": bool(changed)}
        dirty = [r for r in rows if r[4] == "false" or r[6] != "[]" or r[8] != "0" or r[9] != "[]" or r[10] != "[]" or
                 (r[7] not in ("[]", '["ResourceManager::storage_trackers_"]')) or (r[3] == "KConst" and r[5] != "[]")]
        ctx.cov["const_table"]["not_clean"] = ["%s::%s %s" % (r[0], r[1], r[2]) for r in dirty][:10]
        if dirty:
            ctx.broken.append({"kind": "write-set-table", "name": "Gen/ConstWrites.v: members with hidden shared state (C20_no_hidden_state will not check)",
                               "detail": {"members": [{"class": r[0], "name": r[1], "signature": r[2], "kind": r[3], "body_found": r[4], "writes_own": r[5], "writes_through_pointer": r[6],
                                                       "mutable_touched": r[7], "const_casts": r[8], "static_locals": r[9], "nonconst_calls_through_pointer": r[10]} for r in dirty[:10]]}})
    except Exception as ex:
        ctx.broken.append({"kind": "translator", "name": "translate/constwrites.py", "detail": str(ex)[:2000]})
        dirty = []
    # ---- (a)(b)(c) the Coq obligations
    fw.coq_prove(ctx, "Props/Properties_C20.v")
    # ---- support: ThreadSanitizer run on the real library
    impl = fw.build_harness(ctx, "tsan", "run_conc")
    scripts = {}
    _, rscripts = load_replay(ctx)
    scripts.update(rscripts)
    try:
        import kgen
        kdriver = fw.build_driver(ctx, "Extract/Extract.v", "kdriver.ml", "kdriver")
        kpath = os.path.join(RUN, "C20-kgen-%d.scripts" % ctx.seed)
        kgen.generate(kdriver, ctx.seed, 24 if ctx.quick() else 400, ["valid", "setops", "swaps"], 12 if ctx.quick() else 30, kpath, prefix="conc")
        import kernel_engine as ke
        scripts.update(ke.script_blocks(kpath))
    except Exception as ex:
        ctx.notes.append("kgen scripts unavailable (%s); only gen/geogen.py meshes were used" % str(ex)[:300])
    gs = geogen.mesh_scripts(ctx.seed, True)
    scripts.update({k: v for i, (k, v) in enumerate(gs.items()) if ctx.quick() is False or i % 5 == 0})   # 5 is coprime to the 12 shapes: every shape (n-gons included) occurs
    scripts.update(geogen.conc_scripts(ctx.seed, 16 if ctx.quick() else 200))
    path = os.path.join(RUN, "C20-conc-%d.scripts" % ctx.seed)
    write_scripts(path, scripts)
    stats = {"scripts": len(scripts), "runs": 0, "thread_counts": [], "queries_per_pass": 0, "tsan_reports": 0, "mismatches": 0, "by_mesh_kind": {}}
    if impl:
        plan = [(2, 3), (3, 2), (5, 2), (8, 2), (16, 1)] if ctx.quick() else [(n, 3) for n in range(2, 17)]
        if ctx.broken: plan = [(n, 6) for n in range(2, 17)]          # search budget when an obligation / the table broke
        digests = set()
        for nthreads, rounds in plan:
            rc, out, err = run_conc(impl, path, nthreads, rounds)
            stats["thread_counts"].append(nthreads)
            reps = tsan_reports(err)
            stats["tsan_reports"] += len(reps)
            lines = [l for l in out.split("\n") if l.startswith("script ")]
            stats["runs"] += len(lines)
            for l in lines:
                f = dict(p.split("=", 1) for p in l.split()[2:])
                digests.add(f["digest"])
                stats["by_mesh_kind"][f["mesh"]] = stats["by_mesh_kind"].get(f["mesh"], 0) + 1
                if nthreads == plan[0][0]: stats["queries_per_pass"] += int(f["queries"])
            bad = [l for l in out.split("\n") if l.startswith("!O C20")]
            stats["mismatches"] += len(bad)
            for l in bad[:2]:
                m = re.search(r"script=(\S+)", l)
                nm = m.group(1) if m else None
                if len(ctx.violations) < 5:
                    ctx.violations.append({"kind": "input", "oracle": "threads_observe_single_threaded_results", "what": l, "threads": nthreads, "rounds": rounds,
                                           "script_lines": scripts.get(nm), "replay_cmd": "build/bin/tsan/run_conc %s %d %d" % (path, nthreads, rounds)})
            if reps:
                # localise: which script races?  (each script alone, same thread count)
                culprit = None
                for nm, ls in scripts.items():
                    one = os.path.join(RUN, "C20-one.scripts")
                    write_scripts(one, {nm: ls})
                    rc1, o1, e1 = run_conc(impl, one, nthreads, max(rounds, 3), timeout=300)
                    if tsan_reports(e1):
                        culprit = (nm, ls, tsan_reports(e1)[0]); break
                rep = (culprit[2] if culprit else reps[0])
                if len(ctx.violations) < 5:
                    ctx.violations.append({"kind": "input", "oracle": "ThreadSanitizer", "what": "data race reported during concurrent read-only queries: " + " ".join(rep.split())[:1800],
                                           "threads": nthreads, "rounds": rounds, "script_lines": culprit[1] if culprit else None, "script": culprit[0] if culprit else None,
                                           "replay_cmd": "TSAN_OPTIONS='halt_on_error=0 exitcode=66' build/bin/tsan/run_conc %s %d %d" % (path, nthreads, rounds)})
                break
            if rc not in (0,) and not reps and not bad:
                ctx.violations.append({"kind": "input", "oracle": "crash", "what": "run_conc exited with %d: %s" % (rc, err[-1200:]), "threads": nthreads,
                                       "replay_cmd": "build/bin/tsan/run_conc %s %d %d" % (path, nthreads, rounds)})
                break
        ctx.cov["evaluations"] += stats["runs"]
        ctx.cov["distinct_nontrivial"] += len(digests)
    ctx.cov["conc"] = stats
    ctx.cov["rule"] = (
        "evaluations = (script, thread count) pairs executed under ThreadSanitizer: every script builds ONE shared mesh through harness/kernel_exec.hh "
        "(gen/kgen.py histories with deletions / swaps / garbage collection and properties on polyhedral meshes, gen/geogen.py shapes, tetrahedral strips and "
        "fans on TetrahedralMeshTopologyKernel, hexahedral blocks on HexahedralMeshTopologyKernel); then 2..16 threads run 9 batches of const queries "
        "(entity iteration, all vertex/edge/face/cell circulators, find_halfedge/find_halfface*, is_boundary + boundary iterators, valence, adjacency in cells, "
        "hex sheets / tet vertices, positions + geometric queries, property values through existing handles) in per-thread rotations; per-thread hashes of everything "
        "observed are compared with the single-threaded pass, the state digest before/after must be equal. distinct_nontrivial = distinct mesh state digests. "
        "The write-set table counts are under const_table (regenerated from the clang AST this run).")
    ctx.cov["samples"] += [{"theorem": t} for t in fw.theorem_statements("Props/Properties_C20.v", 8)][:3]
    ctx.cov["samples"].append({"script": next(iter(scripts.values()))[:12] if scripts else None})
    ctx.cov["level_note"] = (
        "PARTIAL. Proved (Coq): every interleaving of threads made of read-only steps leaves the state unchanged and gives each thread the outputs of its "
        "sequential run (any schedule, by induction; complete schedules exist and agree); model queries are pure; `Forall clean const_methods` over the table "
        "regenerated from the clang AST (no writes through this / through pointer members, no mutable member except the excluded ResourceManager::storage_trackers_, "
        "no const_cast, no function-local static, no non-const call through a pointer member, every const kernel member has an analysed body). "
        "NOT proved, only observed by ThreadSanitizer on the generated meshes and schedules the OS happened to produce: absence of data races in the compiled "
        "binary under the C++ memory model, the standard library's and allocator's internal synchronisation, writes through local aliases or callees outside the "
        "scanned classes (std::, property storage). Race freedom of the binary rests on the soundness of translate/constwrites.py for its syntactic patterns.")
    ctx.assumptions += [
        "no thread modifies the mesh during the concurrent phase; property creation/destruction (ResourceManager::storage_trackers_) is excluded as in the property text",
        "all bottom-up incidences are enabled before the threads start (the circulators of the query batches require them)",
        "C++ const-correctness: outside the escape hatches listed in Gen/ConstWrites.v a const member function / a const TopologyKernel* cannot modify the object",
    ]
