"""Lock-step comparison of the extracted model (OCaml driver) and the real library (C++ harness)
on the same script file.  Both print, per script, a header line '#### name' and after every
operation a block '== n echo -> outcome' + canonical state lines.  This module splits the two
outputs and reports, per script, the first differing step and state component."""
import subprocess, os, time

def split_scripts(text, oracle_out=None, inv_out=None):
    """-> {name: [block, ...]}, block = list of lines starting with '== ' (or '!! CRASH').
    Lines '!O <property> <message>' (impl-side oracle reports) are diverted to oracle_out."""
    scripts, cur, blk, name = {}, None, None, None
    for ln in text.split("\n"):
        if ln.startswith("#I "):
            if inv_out is not None and cur is not None:
                d = dict(p.split("=", 1) for p in ln[3:].split())
                inv_out.setdefault("valid_by_script", {}).setdefault(name, []).append(d.get("valid") == "1")
                if d.get("checked") == "0":
                    continue
                inv_out["states"] = inv_out.get("states", 0) + 1
                if d.get("valid") == "1":
                    inv_out["valid_states"] = inv_out.get("valid_states", 0) + 1
                    if d.get("fail"):
                        inv_out.setdefault("fails", []).append({"script": name, "step": len(cur), "invariants": d["fail"]})
            continue
        if ln.startswith("!T"):
            # impl-side marker: from here on the running script is outside the contract of the properties (harness/oracle_kernel.hh: note_history)
            if oracle_out is not None and cur is not None:
                oracle_out.append({"script": name, "step": len(cur), "oracle": "__taint__", "what": ln[3:]})
            continue
        if ln.startswith("!O "):
            if oracle_out is not None and cur is not None:
                parts = ln.split(" ", 2)
                oracle_out.append({"script": name, "step": len(cur), "oracle": parts[1], "what": parts[2] if len(parts) > 2 else ""})
            continue
        if ln.startswith("####"):
            name = ln[4:].strip()
            cur = []
            scripts[name] = cur
            blk = None
        elif cur is None:
            continue
        elif ln.startswith("== ") or ln.startswith("!! "):
            blk = [ln]
            cur.append(blk)
        elif ln and blk is not None:
            blk.append(ln)
    return scripts

def component(line):
    t = line.split(" ", 1)[0]
    if t == "P":
        return "P " + line.split(" ")[1]
    if t == "==":
        return "result"
    return t

class Divergence:
    def __init__(self, script, step, comp, impl, model, echo):
        self.script, self.step, self.component, self.impl, self.model, self.echo = script, step, comp, impl, model, echo
    def as_dict(self):
        return {"script": self.script, "first_bad_step": self.step, "component": self.component,
                "impl_says": self.impl, "model_says": self.model, "op": self.echo}

def compare(impl_blocks, model_blocks, name, valid=None, tainted_at=None):
    n = max(len(impl_blocks), len(model_blocks))
    for i in range(n):
        if i >= len(impl_blocks):
            return Divergence(name, i + 1, "missing", "<no output>", model_blocks[i][0], model_blocks[i][0])
        ib = impl_blocks[i]
        if ib[0].startswith("!! CRASH"):
            mb = model_blocks[i][0] if i < len(model_blocks) else "<end>"
            # a crash after the history left the documented contract (a halfface in two live cells, a live entity referring to a
            # deleted one, ...: Kernel/InvB.v valid_b false on the state BEFORE the call) is not judged
            if valid is not None and i >= 1 and i - 1 < len(valid) and not valid[i - 1]:
                return Divergence(name, i + 1, "crash-out-of-contract", ib[0], mb, mb)
            if tainted_at is not None and tainted_at <= i:
                return Divergence(name, i + 1, "crash-out-of-contract", ib[0], mb, mb)
            return Divergence(name, i + 1, "crash", ib[0], mb, mb)
        if i >= len(model_blocks):
            return Divergence(name, i + 1, "missing", ib[0], "<no output>", ib[0])
        mb = model_blocks[i]
        if ib == mb:
            continue
        for j in range(max(len(ib), len(mb))):
            a = ib[j] if j < len(ib) else "<missing>"
            b = mb[j] if j < len(mb) else "<missing>"
            if a != b:
                return Divergence(name, i + 1, component(a if a != "<missing>" else b), a, b, mb[0])
    return None

def run_both(impl_cmd, model_cmd, script_file, timeout=600, env=None, model_env=None):
    t0 = time.time()
    e = dict(os.environ)
    e.setdefault("ASAN_OPTIONS", "detect_leaks=0:abort_on_error=1:allocator_may_return_null=1")
    e.setdefault("UBSAN_OPTIONS", "print_stacktrace=1:halt_on_error=1")
    if env: e.update(env)
    pi = subprocess.Popen(impl_cmd + [script_file], stdout=subprocess.PIPE, stderr=subprocess.PIPE, env=e)
    me_ = dict(os.environ)
    if model_env: me_.update(model_env)
    pm = subprocess.Popen(model_cmd + [script_file], stdout=subprocess.PIPE, stderr=subprocess.PIPE, env=me_)
    mo, me = pm.communicate(timeout=timeout)
    io, ie = pi.communicate(timeout=timeout)
    return (io.decode(errors="replace"), ie.decode(errors="replace"), mo.decode(errors="replace"),
            me.decode(errors="replace"), pi.returncode, pm.returncode, time.time() - t0)

def lockstep(impl_cmd, model_cmd, script_file, timeout=600, model_env=None):
    """-> (divergences, stats)"""
    io, ie, mo, me, irc, mrc, wall = run_both(impl_cmd, model_cmd, script_file, timeout, model_env=model_env)
    if mrc != 0:
        raise RuntimeError("model driver failed: " + me[-2000:])
    ofails = []
    inv = {}
    si, sm = split_scripts(io, ofails), split_scripts(mo, None, inv)
    divs = []
    steps = 0
    outcomes = {"Ok": 0, "Rejected": 0, "Unresolvable": 0}
    ops = {}
    for name, mblocks in sm.items():
        taint = min([o["step"] for o in ofails if o["oracle"] == "__taint__" and o["script"] == name], default=None)
        d = compare(si.get(name, []), mblocks, name, inv.get("valid_by_script", {}).get(name), taint)
        if d: divs.append(d)
        steps += len(mblocks)
        for b in mblocks:
            head = b[0]
            oc = head.rsplit("->", 1)[1].split()[0]
            outcomes[oc] = outcomes.get(oc, 0) + 1
            opn = head.split(" ")[2].lstrip("@")
            ops[opn] = ops.get(opn, 0) + 1
    for name in si:
        if name not in sm:
            divs.append(Divergence(name, 0, "missing", "<script only on impl side>", "", ""))
    taints = [o for o in ofails if o["oracle"] == "__taint__"]
    ofails[:] = [o for o in ofails if o["oracle"] != "__taint__"]
    return divs, {"tainted_scripts": len({o["script"] for o in taints}), "scripts": len(sm), "steps": steps, "outcomes": outcomes, "ops": ops, "wall_s": wall, "oracle_fails": ofails, "inv": inv,
                  "impl_stderr_tail": ie[-3000:], "model_out": mo, "impl_out": io}

def extract_script(script_file, name):
    out, on = [], False
    for ln in open(script_file):
        if ln.startswith("####"):
            on = ln[4:].strip() == name
            continue
        if on: out.append(ln.rstrip("\n"))
    return out
