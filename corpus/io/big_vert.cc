// Replay for the C06 size finding: a polyhedral mesh with n vertices and nothing else is written with ovmb_write to a file
// and read back with ovmb_read.  For n * 24 >= 2^32 (n >= 178956971) the reader's uint32_t product count * pos_size wraps.
#include <OpenVolumeMesh/Mesh/PolyhedralMesh.hh>
#include <OpenVolumeMesh/IO/ovmb_read.hh>
#include <OpenVolumeMesh/IO/ovmb_write.hh>
#include <OpenVolumeMesh/IO/enums.hh>
#include <fstream>
#include <iostream>
#include <cstdlib>
using namespace OpenVolumeMesh;
int main(int argc, char **argv) {
    size_t n = strtoull(argv[1], nullptr, 10);
    const char *path = argv[2];
    typedef GeometricPolyhedralMeshV3d Mesh;
    {
        Mesh m;
        m.reserve_vertices(n);
        for (size_t i = 0; i < n; ++i) m.add_vertex(Geometry::Vec3d(1.0, 2.0, 3.0));
        std::ofstream f(path, std::ios::binary);
        auto wr = IO::ovmb_write(f, m);
        f.close();
        std::cout << "n_vertices=" << m.n_vertices() << " write=" << IO::to_string(wr) << std::endl;
    }
    {
        Mesh m2;
        std::ifstream f(path, std::ios::binary);
        auto rr = IO::ovmb_read(f, m2);
        std::cout << "read=" << IO::to_string(rr) << " n_vertices_read=" << m2.n_vertices() << std::endl;
    }
    return 0;
}
