(* DESIGN-PHASE PROTOTYPE, not part of the verification machinery (see DESIGN.md, Appendix B).
   Micro-kernel (edges + outgoing-halfedge cache): delete_edge_core in immediate, index-shifting mode
   preserves "cache = exact inverse of the definitions".  Compiles stand-alone: coqc Shift.v *)
From Coq Require Import List Arith Lia Bool PeanoNat ZArith ZifyNat ZifyBool.
Import ListNotations.
Ltac Zify.zify_post_hook ::= Z.div_mod_to_equations.
Local Open Scope nat_scope.

(* ---------- list helpers ---------- *)
Fixpoint remove_nth {A} (n : nat) (l : list A) : list A :=
  match l, n with
  | [], _ => []
  | _ :: xs, O => xs
  | x :: xs, S k => x :: remove_nth k xs
  end.
Fixpoint upd {A} (l : list A) (i : nat) (f : A -> A) : list A :=
  match l, i with [], _ => [] | x::xs, O => f x :: xs | x::xs, S k => x :: upd xs k f end.

Lemma nth_remove_nth {A} (d : A) : forall n l i,
  nth i (remove_nth n l) d = if i <? n then nth i l d else nth (S i) l d.
Proof.
  induction n as [|n IH]; intros [|x xs] i; simpl.
  - destruct i; reflexivity.
  - reflexivity.
  - destruct (i <? S n); destruct i; reflexivity.
  - destruct i as [|i]; [reflexivity|]. simpl. rewrite IH.
    change (S i <? S n) with (i <? n). reflexivity.
Qed.
Lemma length_remove_nth {A} : forall n (l : list A), n < length l -> length (remove_nth n l) = length l - 1.
Proof. induction n; intros [|x xs] H; simpl in *; try lia. rewrite IHn by lia. lia. Qed.
Lemma nth_upd {A} (d : A) f : forall l i j, nth j (upd l i f) d = if (j =? i) && (j <? length l) then f (nth j l d) else nth j l d.
Proof.
  induction l as [|x xs IH]; intros i j; simpl.
  - rewrite andb_false_r. reflexivity.
  - destruct i, j; simpl; try reflexivity. rewrite IH. reflexivity.
Qed.
Lemma length_upd {A} f : forall (l : list A) i, length (upd l i f) = length l.
Proof. induction l; intros [|i]; simpl; auto. Qed.

(* ---------- micro kernel: edges + outgoing-halfedge cache ---------- *)
Record st := { nv : nat; edges : list (nat*nat); out : list (list nat) }.
Definition he_from (es : list (nat*nat)) (h : nat) : nat :=
  let p := nth (h / 2) es (0,0) in if Nat.even h then fst p else snd p.
Definition shift (t : nat) (h : nat) : nat := if t <? h then h - 2 else h.   (* HEHandleCorrection, thld = 2e+1 *)
Definition rm (x : nat) (l : list nat) := filter (fun y => negb (y =? x)) l.

(* delete_edge_core, immediate + index-shifting, vertex incidences on  (TopologyKernel.cc:1056-1075,1160-1171) *)
Definition del_edge (s : st) (e : nat) : st :=
  let p := nth e (edges s) (0,0) in
  let o1 := upd (out s) (fst p) (rm (2*e)) in
  let o2 := upd o1 (snd p) (rm (2*e+1)) in
  {| nv := nv s;
     edges := remove_nth e (edges s);
     out := map (map (shift (2*e+1))) o2 |}.

Definition exact (s : st) : Prop :=
  length (out s) = nv s /\
  (forall a b, In (a,b) (edges s) -> a < nv s /\ b < nv s) /\
  forall v, v < nv s ->
    NoDup (nth v (out s) []) /\
    forall h, In h (nth v (out s) []) <-> (h < 2 * length (edges s) /\ he_from (edges s) h = v).

(* arithmetic facts about halfedge indices and the shift *)
Lemma div2_lt h n : h < 2 * n <-> h / 2 < n.
Proof. lia. Qed.
Lemma shift_div e h : h / 2 <> e -> (shift (2*e+1) h) / 2 = if Nat.ltb e (h / 2) then h / 2 - 1 else h / 2.
Proof. intros Hne. unfold shift. destruct (Nat.ltb (2*e+1) h) eqn:E1; destruct (Nat.ltb e (h/2)) eqn:E2; lia. Qed.
Lemma even_mod h : Nat.even h = (Nat.eqb (h mod 2) 0).
Proof. destruct (Nat.even h) eqn:E.
  - apply Nat.even_spec in E. destruct E as [k ->]. symmetry. apply Nat.eqb_eq. lia.
  - assert (O : Nat.odd h = true) by (rewrite <- Nat.negb_even, E; reflexivity).
    apply Nat.odd_spec in O. destruct O as [k ->]. symmetry. apply Nat.eqb_neq. lia.
Qed.
Lemma shift_even e h : h / 2 <> e -> Nat.even (shift (2*e+1) h) = Nat.even h.
Proof. intros Hne. rewrite !even_mod. unfold shift. destruct (Nat.ltb (2*e+1) h) eqn:E1; lia. Qed.
Lemma shift_inj e h1 h2 : h1/2 <> e -> h2/2 <> e -> shift (2*e+1) h1 = shift (2*e+1) h2 -> h1 = h2.
Proof. intros H1 H2. unfold shift. destruct (Nat.ltb (2*e+1) h1) eqn:E1; destruct (Nat.ltb (2*e+1) h2) eqn:E2; lia. Qed.
Definition unshift (e h' : nat) : nat := if Nat.ltb h' (2*e) then h' else h' + 2.
Lemma unshift_spec e h' : (unshift e h') / 2 <> e /\ shift (2*e+1) (unshift e h') = h'.
Proof. unfold unshift, shift. destruct (Nat.ltb h' (2*e)) eqn:E; [destruct (Nat.ltb (2*e+1) h') eqn:E2 | destruct (Nat.ltb (2*e+1) (h'+2)) eqn:E2]; lia. Qed.

Lemma he_from_remove e es h' : e < length es ->
  he_from (remove_nth e es) h' = he_from es (unshift e h').
Proof.
  intros He. unfold he_from. rewrite nth_remove_nth.
  assert (Hev : Nat.even (unshift e h') = Nat.even h').
  { rewrite !even_mod. unfold unshift. destruct (Nat.ltb h' (2*e)); lia. }
  rewrite Hev. unfold unshift.
  destruct (Nat.ltb (h'/2) e) eqn:E1; destruct (Nat.ltb h' (2*e)) eqn:E2; try lia; try reflexivity.
  replace ((h'+2)/2) with (S (h'/2)) by lia. reflexivity.
Qed.

Lemma In_rm x y l : In y (rm x l) <-> In y l /\ y <> x.
Proof. unfold rm. rewrite filter_In. rewrite negb_true_iff, Nat.eqb_neq. tauto. Qed.
Lemma NoDup_rm x l : NoDup l -> NoDup (rm x l).
Proof. apply NoDup_filter. Qed.

Lemma NoDup_map_inj_on {A B} (f : A -> B) (l : list A) :
  (forall x y, In x l -> In y l -> f x = f y -> x = y) -> NoDup l -> NoDup (map f l).
Proof.
  induction l as [|a l IH]; intros Hinj Hnd; simpl; [constructor|].
  inversion Hnd as [|? ? Hni Hnd']; subst. constructor.
  - intro Hin. apply in_map_iff in Hin. destruct Hin as [y [Hy Hiny]].
    assert (y = a) by (apply Hinj; simpl; auto). subst. contradiction.
  - apply IH; auto. intros x y Hx Hy. apply Hinj; simpl; auto.
Qed.

Lemma In_remove_nth {A} (x : A) : forall n l, In x (remove_nth n l) -> In x l.
Proof. induction n as [|n IH]; intros [|y ys] H; simpl in *; auto. destruct H; auto. Qed.

Theorem del_edge_exact s e : exact s -> e < length (edges s) -> exact (del_edge s e).
Proof.
  intros [Hlen [Hrng Hex]] He.
  set (p := nth e (edges s) (0,0)).
  assert (Hp : In p (edges s)) by (apply nth_In; exact He).
  destruct (Hrng (fst p) (snd p)) as [Hp1 Hp2]; [destruct p; exact Hp|].
  unfold del_edge. fold p. unfold exact. cbn [nv edges out].
  rewrite map_length, !length_upd.
  split; [exact Hlen|]. split.
  { intros a b Hin. apply Hrng. eapply In_remove_nth; eauto. }
  intros v Hv. destruct (Hex v Hv) as [Hnd Hin].
  (* characterise the filtered list o2[v] *)
  set (o2v := nth v (upd (upd (out s) (fst p) (rm (2*e))) (snd p) (rm (2*e+1))) []).
  assert (Ho2 : forall h, In h o2v <-> In h (nth v (out s) []) /\ h / 2 <> e).
  { intro h. unfold o2v. rewrite !nth_upd, !length_upd.
    assert (Hh0 : In (2*e) (nth v (out s) []) <-> v = fst p).
    { rewrite Hin. unfold he_from. replace (2*e/2) with e by lia. fold p.
      replace (Nat.even (2*e)) with true by (rewrite even_mod; symmetry; apply Nat.eqb_eq; lia). split; [intros [_ H]; auto|intros ->; split; [lia|reflexivity]]. }
    assert (Hh1 : In (2*e+1) (nth v (out s) []) <-> v = snd p).
    { rewrite Hin. unfold he_from. replace ((2*e+1)/2) with e by lia. fold p.
      replace (Nat.even (2*e+1)) with false by (rewrite even_mod; symmetry; apply Nat.eqb_neq; lia). split; [intros [_ H]; auto|intros ->; split; [lia|reflexivity]]. }
    assert (Hne : h / 2 <> e <-> h <> 2*e /\ h <> 2*e+1) by lia. rewrite Hne.
    replace (Nat.ltb v (length (out s))) with true by (symmetry; apply Nat.ltb_lt; lia). rewrite !andb_true_r.
    destruct (Nat.eqb_spec v (snd p)) as [E2|E2]; destruct (Nat.eqb_spec v (fst p)) as [E1|E1]; rewrite ?In_rm;
      (split; [intro H | intro H]);
      repeat match goal with
             | H : _ /\ _ |- _ => destruct H
             | |- _ /\ _ => split
             | |- _ <> _ => let Hc := fresh in intro Hc; subst h
             end; try assumption; try tauto; try lia. }
  assert (Hnd2 : NoDup o2v).
  { unfold o2v. rewrite !nth_upd, !length_upd.
    destruct ((Nat.eqb v (snd p)) && _); destruct ((Nat.eqb v (fst p)) && _); repeat apply NoDup_rm; exact Hnd. }
  rewrite (map_nth (map (shift (2*e+1))) _ [] v) || (change [] with (map (shift (2*e+1)) []) at 1; rewrite map_nth).
  fold o2v. split.
  - apply NoDup_map_inj_on; [|exact Hnd2].
    intros x y Hx Hy. apply Ho2 in Hx, Hy. apply shift_inj; tauto.
  - intro h'. rewrite in_map_iff. rewrite length_remove_nth by exact He. split.
    + intros [h [Hsh Hh]]. apply Ho2 in Hh. destruct Hh as [Hh Hne]. apply Hin in Hh. destruct Hh as [Hlt Hfrom].
      subst h'. rewrite he_from_remove by exact He.
      assert (unshift e (shift (2*e+1) h) = h).
      { destruct (unshift_spec e (shift (2*e+1) h)) as [U1 U2]. apply (shift_inj e); auto. }
      rewrite H. split; [|exact Hfrom]. unfold shift. destruct (Nat.ltb (2*e+1) h) eqn:E; lia.
    + intros [Hlt Hfrom]. exists (unshift e h'). destruct (unshift_spec e h') as [U1 U2]. split; [exact U2|].
      apply Ho2. split; [|exact U1]. apply Hin. rewrite he_from_remove in Hfrom by exact He. split; [|exact Hfrom].
      unfold unshift. destruct (Nat.ltb h' (2*e)) eqn:E; lia.
Qed.
Print Assumptions del_edge_exact.
